// Package c16 checks property C16: failed EVM calls leave no trace; a static call and everything beneath it
// changes nothing; the sum of balances is unchanged except for self-destruct burns; gas returned never exceeds gas
// supplied.
//
//	gen.go     Case (a program tree as plain data) and its rapid generator
//	asm.go     assembler + compiler: Case -> bytecode of 2-5 contracts (init/runtime code as data blobs)
//	shadow.go  step tracer, frame-tree reconstruction, shadow world with one checkpoint per frame, state comparison
//	this file  runCase: real StateDB + runtime.Call/Create under the tracer, oracle, known-finding attribution
//
// Known findings (known_findings.json): c09-val-revision-list (core/state revision lists, shared root cause with
// C09) and deleted-account-balance-resurrected (StateDB.CreateAccount inherits a deleted object's balance).
package c16

import (
	"fmt"
	"math/big"
	"regexp"
	"runtime/debug"
	"sort"
	"testing"

	"github.com/youchainhq/go-youchain/common"
	"github.com/youchainhq/go-youchain/core/state"
	"github.com/youchainhq/go-youchain/core/vm"
	"github.com/youchainhq/go-youchain/core/vm/runtime"
	"github.com/youchainhq/go-youchain/params"
	"github.com/youchainhq/go-youchain/youdb"
	"verif/kit"
)

func TestMain(m *testing.M) {
	// process-wide protocol parameters: set once, before any case
	params.InitNetworkId(params.NetworkIdForTestCase)
	kit.Main(m, "C16")
}
func TestProps(t *testing.T)  { kit.RunAll(t) }
func TestReplay(t *testing.T) { kit.ReplayAll(t) }

const (
	originBalance = 1000
	eoaBalance    = 7
)

var (
	blockHash   = common.BytesToHash([]byte{0xb1, 0x0c})
	revisionRE  = regexp.MustCompile(`^revision id \d+ cannot be reverted$`)
	rtConfigVal *vm.RuntimeConfig
)

func rtConfig() vm.RuntimeConfig {
	if rtConfigVal == nil {
		p := params.Versions[params.YouCurrentVersion]
		rtConfigVal = &vm.RuntimeConfig{CurrYouParams: &p, JumpTable: vm.GetJumpTable(p.EVMVersion)}
	}
	return *rtConfigVal
}

func txHash(i int) common.Hash { return common.BytesToHash([]byte{0x77, byte(i + 1)}) }

type execOut struct {
	viol     *viol
	txUsed   []uint64
	siteUsed map[*Action]siteUse
	st       stats
	panicked bool
	avoided  bool
}

// execute runs the case's transactions against a fresh real StateDB and the shadow.
func execute(c *Case, measuring bool, overrides map[*Action]uint64, txGas []uint64, carry bool) (out execOut) {
	cp := compile(c, measuring, overrides)

	// ---- real state: populate, commit, reopen from the trie (as a block's pre-state)
	db := state.NewDatabase(youdb.NewMemDatabase())
	st, err := state.New(common.Hash{}, common.Hash{}, common.Hash{}, db)
	if err != nil {
		panic(err)
	}
	o := &oracle{carry: carry, gone: map[common.Address]bool{}, w: newWorld(), seen: map[common.Address]bool{}, touched: map[common.Address]map[common.Hash]bool{},
		labels: map[common.Address]string{originAddr: "origin", eoaAddr: "eoa", noneAddr: "none"}}
	var total0 uint64
	fund := func(ad common.Address, bal uint64) *acct {
		a := o.acct(ad)
		a.exists, a.bal = true, bal
		st.SetBalance(ad, new(big.Int).SetUint64(bal))
		total0 += bal
		return a
	}
	fund(originAddr, originBalance)
	fund(eoaAddr, eoaBalance)
	o.acct(noneAddr)
	for i, ct := range c.Contracts {
		ad := cp.addrs[i]
		o.labels[ad] = fmt.Sprintf("c%d", i)
		a := fund(ad, uint64(ct.Balance))
		a.nonce, a.code = 1, cp.codes[i]
		st.SetNonce(ad, 1)
		st.SetCode(ad, cp.codes[i])
		for s, v := range ct.Storage {
			slot := u64Hash(uint64(s))
			o.touch(ad, slot)
			if v != 0 {
				if a.stor == nil {
					a.stor = map[common.Hash]common.Hash{}
				}
				a.stor[slot] = u64Hash(uint64(v))
				st.SetState(ad, slot, u64Hash(uint64(v)))
			}
		}
	}
	for n := 1; n <= 8; n++ {
		o.labels[nativeAddr(n)] = fmt.Sprintf("native%d", n)
		if c.PrefundNative {
			fund(nativeAddr(n), 1)
		} else {
			o.acct(nativeAddr(n))
		}
	}
	for i, ad := range cp.derived2 {
		if _, ok := o.labels[ad]; !ok {
			o.labels[ad] = fmt.Sprintf("made%d", i)
		}
		o.acct(ad)
	}
	root, valRoot, stakingRoot, err := st.Commit(false)
	if err != nil {
		panic(err)
	}
	if st, err = state.New(root, valRoot, stakingRoot, db); err != nil {
		panic(err)
	}

	avoidResurrect := false
	for _, a := range c.Avoid {
		avoidResurrect = avoidResurrect || a == classResurrect
	}
	defer func() { out.st = o.st }()
	logBase := uint(0)
	for i, tx := range c.Txs {
		o.txi = i
		if i > 0 && avoidResurrect && o.w.ghosts() {
			// an account destroyed by the previous transaction held value when it was removed: the next
			// transaction could resurrect it (known finding); the case ends here
			out.avoided = true
			break
		}
		if i == 1 && c.SecondTx == "copy" {
			st = st.Copy()
		}
		st.Prepare(txHash(i), blockHash, i)
		to := cp.addrs[tx.Entry%len(cp.addrs)]
		gas := txGas[i]
		tr := &tracer{steps: stepBuf[:0]}
		cfg := &runtime.Config{
			Origin: originAddr, Coinbase: common.BytesToAddress([]byte{0xc0, 0x1b}), BlockNumber: big.NewInt(10),
			Time: big.NewInt(1000), GasLimit: gas, GasPrice: new(big.Int), Value: big.NewInt(int64(tx.Value)), State: st,
			EVMConfig: &vm.Config{RuntimeConfig: rtConfig(), LocalConfig: vm.LocalConfig{Debug: true, Tracer: tr}},
		}
		var initCode, input []byte
		if tx.Init != nil {
			initCode = cp.initCode(tx.Init)
		} else if tx.Native != nil {
			to = nativeAddr(normNative(tx.Native.N))
			input = nativeVector(normNative(tx.Native.N), tx.Native.Vec)
		}
		o.topInput = input
		var (
			made    common.Address
			left    uint64
			callErr error
			pv      interface{}
			stack   []byte
		)
		func() {
			defer func() {
				if r := recover(); r != nil {
					pv, stack = r, debug.Stack()
				}
			}()
			if tx.Init != nil {
				_, made, left, callErr = runtime.Create(initCode, cfg)
			} else if tx.Native != nil {
				_, left, callErr = runtime.Call(to, input, cfg)
			} else {
				_, left, callErr = runtime.Call(to, nil, cfg)
			}
		}()
		if pv != nil {
			out.panicked = true
			msg := fmt.Sprint(pv)
			if i >= 1 && c.SecondTx == "same" && revisionRE.MatchString(msg) {
				// precise predicate of the known core/state defect: RevertToSnapshot panics on a StateDB that
				// has finalised an earlier transaction (stale validator-journal revision list)
				out.viol = &viol{class: classC09, msg: fmt.Sprintf("tx %d on a StateDB that already finalised a transaction: the EVM's RevertToSnapshot panics: %s (after %d traced steps)", i, msg, len(tr.steps))}
				return
			}
			s := string(stack)
			if len(s) > 2500 {
				s = s[:2500]
			}
			out.viol = &viol{class: "panic", msg: fmt.Sprintf("tx %d: panic during EVM execution: %s\n%s", i, msg, s)}
			return
		}
		if tr.anomaly != "" {
			out.viol = &viol{class: "trace-anomaly", msg: fmt.Sprintf("tx %d: %s", i, tr.anomaly)}
			return
		}
		if cap(tr.steps) > cap(stepBuf) && cap(tr.steps) <= 1<<16 {
			stepBuf = tr.steps[:0]
		}
		var (
			top  *pending
			word common.Hash
		)
		if tx.Init != nil {
			top = o.beginTxCreate(initCode, uint64(tx.Value), gas)
			if callErr == nil {
				word = addrHash(made)
			}
		} else {
			top = o.beginTx(to, uint64(tx.Value), gas, input)
			if callErr == nil {
				word = u64Hash(1)
			}
		}
		if v := o.run(tr.steps, top, word, gas, callErr, left); v != nil {
			out.viol = v
			return
		}
		out.txUsed = append(out.txUsed, gas-left)

		// ---- state right after the call
		if v := o.compare(st, "after the call"); v != nil {
			out.viol = v
			return
		}
		if v := compareLogs(o, st, txHash(i), i, logBase); v != nil {
			out.viol = v
			return
		}
		logBase += uint(len(o.w.logs))
		var sum big.Int
		for _, ad := range o.sortedSeen() {
			sum.Add(&sum, st.GetBalance(ad))
		}
		if want := new(big.Int).SetUint64(total0 - o.w.burnt); sum.Cmp(want) != 0 {
			out.viol = o.fail("value-not-conserved", "after the call: balances sum to %v, before the transactions %d, burnt by self-destruct to self %d", &sum, total0, o.w.burnt)
			return
		}

		// ---- end of transaction (StateProcessor.ApplyTransaction: Finalise(true))
		st.Finalise(true)
		o.w.finalise(o.gone)
		if v := o.compare(st, "after Finalise"); v != nil {
			out.viol = v
			return
		}
	}

	// ---- end of block: commit, reopen, compare; total over every account of the trie.
	// A Copy() is what the miner's pending snapshot and the pending-state API execute on; no caller commits one
	// (and Commit of a copy is C10's subject), so there the block ends with IntermediateRoot only.
	fresh := st
	if len(c.Txs) == 2 && c.SecondTx == "copy" {
		st.IntermediateRoot(true)
		if v := o.compare(st, "after IntermediateRoot"); v != nil {
			out.viol = v
			return
		}
	} else {
		root, valRoot, stakingRoot, err = st.Commit(true)
		if err != nil {
			out.viol = o.fail("commit-error", "Commit after the transactions failed: %v", err)
			return
		}
		if fresh, err = state.New(root, valRoot, stakingRoot, db); err != nil {
			out.viol = o.fail("commit-error", "reopening the committed state failed: %v", err)
			return
		}
		if v := o.compare(fresh, "after Commit, reopened from the trie"); v != nil {
			out.viol = v
			return
		}
	}
	var sum big.Int
	dump := fresh.RawDump()
	for _, da := range dump.Accounts {
		b, ok := new(big.Int).SetString(da.Balance, 10)
		if !ok {
			panic("bad balance in dump: " + da.Balance)
		}
		sum.Add(&sum, b)
	}
	if want := new(big.Int).SetUint64(total0 - o.w.burnt); sum.Cmp(want) != 0 {
		out.viol = o.fail("value-not-conserved", "all %d accounts of the committed trie hold %v in total; before the transactions %d, burnt with self-destructed accounts %d",
			len(dump.Accounts), &sum, total0, o.w.burnt)
		return
	}

	out.siteUsed = map[*Action]siteUse{}
	for _, u := range o.uses {
		for ci, ad := range cp.addrs {
			if ad == u.codeAddr {
				if act, ok := cp.sites[siteKey{ci, u.pc}]; ok {
					if _, dup := out.siteUsed[act]; !dup {
						out.siteUsed[act] = u
					}
				}
			}
		}
	}
	return out
}

func compareLogs(o *oracle, st *state.StateDB, th common.Hash, txi int, base uint) *viol {
	real := st.GetLogs(th)
	if len(real) != len(o.w.logs) {
		return o.fail("log-mismatch", "the transaction has %d logs, the frames whose whole ancestor chain succeeded emitted %d", len(real), len(o.w.logs))
	}
	for i, l := range real {
		w := o.w.logs[i]
		same := l.Address == w.addr && len(l.Topics) == len(w.topics) && string(l.Data) == string(w.data)
		if same {
			for k := range l.Topics {
				same = same && l.Topics[k] == w.topics[k]
			}
		}
		if !same {
			return o.fail("log-mismatch", "log %d is {%s %x %x}, shadow has {%s %x %x}", i, o.name(l.Address), l.Topics, l.Data, o.name(w.addr), w.topics, w.data)
		}
		if l.Index != base+uint(i) || l.TxHash != th || l.TxIndex != uint(txi) {
			return o.fail("log-mismatch", "log %d carries index %d tx %x/%d, expected index %d tx %x/%d", i, l.Index, l.TxHash[30:], l.TxIndex, base+uint(i), th[30:], txi)
		}
	}
	return nil
}

func hasMeasured(c *Case) bool {
	for _, tx := range c.Txs {
		if tx.GasMode != "fixed" {
			return true
		}
	}
	for i := range c.Contracts {
		for _, a := range c.Contracts[i].Prog.Acts {
			if a.Gas == "exact" {
				return true
			}
		}
	}
	return false
}

// failed turns a violation into a result, attributing it to the known resurrection defect exactly when an account
// removed with a balance was re-created and a shadow that models "CreateAccount inherits the deleted object's
// balance" - and nothing else - agrees with the real execution.
func failed(c *Case, r execOut, prefix string, rerun func() execOut) kit.Result {
	if r.st.resurrections > 0 && r.viol.class != classC09 && r.viol.class != "panic" {
		if r2 := rerun(); r2.viol == nil && r2.st.resurrections > 0 {
			return kit.Fail(classResurrect, "%sa self-destructed account that received value after its destruction is removed at the end of the transaction, yet its balance reappears when a later transaction re-creates the account (StateDB.CreateAccount copies the deleted object's balance); first symptom: [%s] %s",
				prefix, r.viol.class, r.viol.msg)
		}
	}
	return kit.Fail(r.viol.class, "%s%s", prefix, r.viol.msg)
}

func runCase(c Case) kit.Result {
	if len(c.Contracts) == 0 || len(c.Txs) == 0 {
		return kit.Discarded("empty case")
	}
	var overrides map[*Action]uint64
	txGas := make([]uint64, len(c.Txs))
	for i, tx := range c.Txs {
		txGas[i] = uint64(tx.Gas)
		if tx.GasMode != "fixed" {
			txGas[i] = ampleGas
		}
		if txGas[i] == 0 {
			txGas[i] = 1
		}
	}
	var st1 stats
	measured := hasMeasured(&c)
	if measured {
		// pass 1: ample gas, "exact" call sites ask for everything; the oracle checks this run as well
		r1 := execute(&c, true, nil, txGas, false)
		if r1.viol != nil {
			return failed(&c, r1, "[measuring pass] ", func() execOut { return execute(&c, true, nil, txGas, true) })
		}
		st1 = r1.st
		overrides = map[*Action]uint64{}
		for act, u := range r1.siteUsed {
			want := int64(u.used) + int64(act.GasN-2)
			if u.value {
				want -= int64(params.CallStipend)
			}
			if want < 1 {
				want = 1
			}
			overrides[act] = uint64(want)
		}
		for i, tx := range c.Txs {
			used := int64(ampleGas)
			if i < len(r1.txUsed) {
				used = int64(r1.txUsed[i])
			}
			switch tx.GasMode {
			case "exact":
				used += int64(tx.Delta)
			case "frac":
				used = used * int64(tx.Pct) / 100
			default:
				continue
			}
			if used < 1 {
				used = 1
			}
			txGas[i] = uint64(used)
		}
	}
	r := execute(&c, false, overrides, txGas, false)
	if r.viol != nil {
		return failed(&c, r, "", func() execOut { return execute(&c, false, overrides, txGas, true) })
	}
	s := r.st
	var labels []string
	add := func(cond bool, l string) {
		if cond {
			labels = append(labels, l)
		}
	}
	add(measured, "two-pass(exact gas)")
	add(len(c.Txs) == 2, "second-tx:"+c.SecondTx)
	for _, e := range c.Excluded {
		labels = append(labels, "excluded:"+e)
	}
	add(s.deepFailWithWrites > 0, "failing frame at depth>=2 after a state change")
	add(s.failedWithWrites > 0, "failing frame after a state change")
	add(s.staticAttempts > 0, "static-context write attempt")
	add(s.staticFrames > 0, "static frame")
	add(s.revertFrames > 0, "REVERT frame")
	add(s.hardFailFrames > 0, "faulting frame")
	add(s.createOK > 0, "create ok")
	add(s.createFail > 0, "create fails")
	add(s.collisions > 0, "create collision")
	add(s.codeStoreOOG > 0, "code deposit out of gas")
	add(s.selfdestructs > 0, "selfdestruct")
	add(s.burns > 0, "selfdestruct burns value")
	add(s.insufficient > 0, "insufficient balance")
	add(s.valueCalls > 0, "value transfer")
	add(s.delegate > 0, "delegatecall")
	add(s.callcode > 0, "callcode")
	add(r.avoided, "excluded:"+classResurrect)
	add(s.recreateAfterDestroyed > 0, "create at an address destroyed by the previous tx")
	add(s.readsChecked > 0, "mid-execution reads checked")
	for _, tx := range c.Txs {
		add(tx.Init != nil, "creation transaction")
	}
	add(s.nativeOK > 0, "native contract call succeeds")
	add(s.nativeFail > 0, "native contract call fails")
	add(s.nativeFailValue > 0, "native contract call with value fails")
	add(s.nativeOpaque > 0, "native contract outcome only observed")
	add(c.PrefundNative && s.nativeCalls > 0, "native contract call, accounts prefunded")
	for _, tx := range c.Txs {
		add(tx.Native != nil, "transaction to a native contract")
	}
	add(s.maxDepth >= 3, "depth>=3")
	add(s.maxDepth >= 6, "depth>=6")
	add(s.maxDepth >= 50, "depth>=50")
	add(s.frames == 0, "no frame ran")
	add(s.steps > 5000, "steps>5000")
	nontrivial := s.nativeFailValue > 0 || st1.nativeFailValue > 0 || s.deepFailWithWrites > 0 || s.staticAttempts > 0 || st1.deepFailWithWrites > 0 || st1.staticAttempts > 0
	sort.Strings(labels)
	return kit.OK(nontrivial, labels...)
}

var _ = kit.Register(kit.Prop[Case]{
	Name: "CallTree",
	Rule: "program trees of 2-5 contracts (0-6 actions each: SSTORE/LOG with frame-unique values, CALL/CALLCODE/DELEGATECALL/STATICCALL with value and gas {all,2300,0,small,exact}, CREATE/CREATE2 with init templates, reads, calls of the native contracts 0x01-0x08 with value / gas near the required amount / valid, short and off-curve inputs (also as plain transactions, optionally with prefunded native accounts); terminators STOP/RETURN/REVERT/INVALID/loop/out-of-gas/underflow/bad jump/SELFDESTRUCT), compiled by the harness assembler, run by runtime.Call on a committed StateDB with a step tracer; 35% as the second transaction after a finalised first; gas fixed/tiny/exact/fraction of measured use; the trace drives a shadow journal that is compared with the real state; non-trivial = a frame at depth >= 2 fails after it (or a successful sub-frame) changed state, or a state-changing op is attempted inside a static call, or a value-carrying call of a native contract fails; distinct = FNV-64 of the case JSON",
	Gen:  genCase, Run: runCase,
	Quick: 6000, Thorough: 100000, Chunk: 500, MinNonTrivialPct: 18,
})
