package c16

import (
	"pgregory.net/rapid"
	"verif/kit"
)

// ---------------------------------------------------------------------------------
// Case: a program tree (plain data, JSON round-trippable)

// Target names an address symbolically; it is resolved by the compiler.
//
//	c      contract number I (mod number of contracts)
//	self   the executing context (compiled as the ADDRESS opcode)
//	eoa    a funded account without code
//	none   an address that does not exist
//	origin the transaction sender
//	made   derived address number I: an address some CREATE/CREATE2 of a contract would produce
//	pre    native (precompiled) contract 0x01..0x08 (I normalised into 1..8); call actions pass input vector Vec
type Target struct {
	K string `json:"k"`
	I int    `json:"i,omitempty"`
}

// Action is one stack-neutral step of a program.
type Action struct {
	// sstore sstore0 sload log balance selfbalance extsize ctx
	// call callcode delegatecall staticcall create create2
	Op     string `json:"op"`
	Slot   int    `json:"slot,omitempty"`
	Topics int    `json:"topics,omitempty"`
	To     Target `json:"to"`
	Value  int    `json:"value,omitempty"`
	// Gas: all (2^64-1 requested -> 63/64 rule) | stipend (2300) | zero | small (GasN) | exact (measured in a
	// first pass with ample gas: what the callee used, plus GasN-2) | near (native targets: what the native
	// contract requires for the vector, plus GasN-2)
	Vec      int    `json:"vec,omitempty"` // input vector number for a native target
	Gas      string `json:"gas,omitempty"`
	GasN     int    `json:"gas_n,omitempty"`
	Bubble   bool   `json:"bubble,omitempty"` // REVERT this frame when the call/create reports failure
	Init     *Init  `json:"init,omitempty"`
	Salt     int    `json:"salt,omitempty"`
	ThenCall bool   `json:"then_call,omitempty"` // CALL the address CREATE left on the stack (value Value2)
	Value2   int    `json:"value2,omitempty"`
}

// Init is an init-code template.
type Init struct {
	Ctor []Action `json:"ctor,omitempty"`
	// code (return Runtime's code) | stop (empty code) | revert | invalid | oog | zeros (return ZeroLen zero bytes)
	End     string   `json:"end"`
	Runtime *Program `json:"runtime,omitempty"`
	ZeroLen int      `json:"zero_len,omitempty"`
}

// Program is a sequence of actions and a terminator.
type Program struct {
	Acts []Action `json:"acts,omitempty"`
	// stop return revert invalid loop oog underflow badjump selfdestruct
	Term string `json:"term"`
	Ben  Target `json:"ben"`
}

// Contract is a pre-deployed contract.
type Contract struct {
	Prog    Program `json:"prog"`
	Balance int     `json:"balance,omitempty"`
	Storage [3]int  `json:"storage"` // initial values of slots 0..2 (0 = empty)
}

// Tx is one top-level message call.
// NativeCall makes the transaction a plain message call of a native contract.
type NativeCall struct {
	N   int `json:"n"`
	Vec int `json:"vec"`
}

type Tx struct {
	Native *NativeCall `json:"native,omitempty"`
	// Init non-nil: a contract-creation transaction (runtime.Create) running this init code; else a call of contract Entry
	Init  *Init `json:"init,omitempty"`
	Entry int   `json:"entry"`
	Value int   `json:"value,omitempty"`
	// fixed: Gas | exact: what the ample-gas pass used + Delta | frac: Pct percent of it
	GasMode string `json:"gas_mode"`
	Gas     int    `json:"gas,omitempty"`
	Delta   int    `json:"delta,omitempty"`
	Pct     int    `json:"pct,omitempty"`
}

// Case is 2-5 contracts and one or two transactions.
type Case struct {
	Contracts []Contract `json:"contracts"`
	Txs       []Tx       `json:"txs"`
	// SecondTx (two transactions only): "same" = second transaction on the very StateDB that finalised the first
	// (what StateProcessor does inside a block); "copy" = on a Copy() of it (what the miner / pending-state API does).
	SecondTx string `json:"second_tx,omitempty"`
	// PrefundNative: the eight native contract addresses hold 1 each before the block (as on Ethereum main net)
	PrefundNative bool `json:"prefund_native,omitempty"`
	// Excluded lists known-finding classes this case was steered away from by the generator.
	Excluded []string `json:"excluded,omitempty"`
	// Avoid lists known-finding classes whose precondition can only be seen at run time: the run stops before the
	// transaction that would hit it (set by the generator while the finding is recorded as known).
	Avoid []string `json:"avoid,omitempty"`
}

// ---------------------------------------------------------------------------------
// generator

const (
	classC09       = "c09-val-revision-list"
	classResurrect = "deleted-account-balance-resurrected"
)

// uni draws an approximately uniform integer in [0,n). rapid's integer generators are strongly biased towards
// small values and the bounds; a multiplicative hash of a 16-bit draw spreads that bias over the categories
// (the draw 0, which rapid favours and shrinks to, maps to 0: put the simplest alternative first).
func uni(t *rapid.T, label string, n int) int {
	x := rapid.IntRange(0, 65535).Draw(t, label)
	v := int((uint32(x) * 2654435761) >> 16)
	if n > 1<<16 {
		y := rapid.IntRange(0, 65535).Draw(t, label+"-hi")
		v |= int((uint32(y)*2654435761)>>16) << 16
	}
	return v % n
}

func weighted(t *rapid.T, label string, kv ...interface{}) string {
	total := 0
	for i := 1; i < len(kv); i += 2 {
		total += kv[i].(int)
	}
	x := uni(t, label, total)
	for i := 0; i < len(kv); i += 2 {
		w := kv[i+1].(int)
		if x < w {
			return kv[i].(string)
		}
		x -= w
	}
	return kv[0].(string)
}

func pick(t *rapid.T, label string, vals []int) int { return vals[uni(t, label, len(vals))] }

// genCtx tells the generator where a program sits: contract number self of n (self < 0: init or runtime code).
type genCtx struct{ self, n int }

func genTarget(t *rapid.T, g genCtx) Target {
	k := weighted(t, "tk", "c", 60, "self", 5, "eoa", 6, "none", 6, "origin", 2, "made", 18, "pre", 9)
	tg := Target{K: k}
	switch k {
	case "pre":
		tg.I = 1 + uni(t, "native", 8)
	case "c":
		// mostly forward calls (a tree); sometimes any contract, which allows recursion
		if g.self >= 0 && g.self+1 < g.n && uni(t, "fwd", 10) >= 2 {
			tg.I = g.self + 1 + uni(t, "ti", g.n-g.self-1)
		} else {
			tg.I = uni(t, "ti", 16)
		}
	case "made":
		tg.I = uni(t, "ti", 16)
	}
	return tg
}

var smallGas = []int{1, 100, 700, 1000, 2300, 2301, 3000, 5000, 5100, 10000, 20000, 21000, 23000, 25000, 30000, 45000, 50000}

func genValue(t *rapid.T) int {
	return pick(t, "value", []int{0, 0, 0, 0, 0, 0, 0, 0, 0, 0, 0, 1, 1, 1, 1, 2, 2, 3, 50, 50})
}

func genGas(t *rapid.T, a *Action) {
	a.Gas = weighted(t, "gasmode", "all", 45, "stipend", 8, "zero", 5, "small", 25, "exact", 17)
	switch a.Gas {
	case "small":
		a.GasN = pick(t, "gasn", smallGas)
	case "exact":
		a.GasN = uni(t, "gasdelta", 5) // delta = GasN-2
	}
}

// genNative fills the input vector and a gas request for a call whose target is a native contract.
func genNative(t *rapid.T, a *Action) {
	a.Vec = uni(t, "vec", 12)
	a.Gas = weighted(t, "ngas", "near", 45, "all", 25, "small", 15, "stipend", 5, "zero", 10)
	switch a.Gas {
	case "near":
		a.GasN = uni(t, "gasdelta", 5)
	case "small":
		a.GasN = pick(t, "gasn", smallGas)
	}
}

func genAction(t *rapid.T, level int, g genCtx) Action {
	var op string
	if level == 0 {
		op = weighted(t, "op", "sstore", 18, "call", 24, "log", 9, "delegatecall", 7, "staticcall", 8, "create", 6, "create2", 7,
			"callcode", 4, "sstore0", 3, "sload", 3, "balance", 3, "selfbalance", 2, "extsize", 2, "ctx", 4)
	} else {
		op = weighted(t, "op", "sstore", 20, "call", 16, "log", 12, "delegatecall", 4, "staticcall", 4, "callcode", 2,
			"sstore0", 4, "sload", 4, "balance", 4, "selfbalance", 2, "extsize", 2, "ctx", 4)
	}
	a := Action{Op: op}
	switch op {
	case "sstore", "sstore0", "sload":
		a.Slot = uni(t, "slot", 3)
	case "log":
		a.Topics = uni(t, "topics", 3)
	case "balance", "extsize":
		a.To = genTarget(t, g)
	case "call", "callcode":
		a.To = genTarget(t, g)
		a.Value = genValue(t)
		genGas(t, &a)
		if a.To.K == "pre" {
			genNative(t, &a)
			a.Value = pick(t, "nvalue", []int{0, 1, 1, 2, 0, 1, 50})
		}
		a.Bubble = uni(t, "bubble", 10) >= 7
	case "delegatecall", "staticcall":
		a.To = genTarget(t, g)
		genGas(t, &a)
		if a.To.K == "pre" {
			genNative(t, &a)
		}
		a.Bubble = uni(t, "bubble", 10) >= 7
	case "create", "create2":
		a.Value = genValue(t)
		a.Salt = uni(t, "salt", 2)
		a.Init = genInit(t, g)
		a.Bubble = uni(t, "bubble", 10) >= 7
		if uni(t, "thencall", 10) >= 6 {
			a.ThenCall = true
			a.Value2 = pick(t, "value2", []int{0, 0, 0, 1})
		}
	}
	return a
}

func genActs(t *rapid.T, level, max int, g genCtx) []Action {
	n := uni(t, "nacts", max+1)
	var acts []Action
	for i := 0; i < n; i++ {
		acts = append(acts, genAction(t, level, g))
	}
	return acts
}

func genProgram(t *rapid.T, level int, g genCtx) Program {
	max := 6
	if level > 0 {
		max = 3
	}
	p := Program{Acts: genActs(t, level, max, g)}
	if uni(t, "writefirst", 10) >= 5 {
		// a state change early in the frame, so that a later failure has something to undo
		w := Action{Op: weighted(t, "wop", "sstore", 6, "log", 3, "sstore0", 1)}
		w.Slot, w.Topics = uni(t, "slot", 3), uni(t, "topics", 3)
		p.Acts = append([]Action{w}, p.Acts...)
	}
	p.Term = weighted(t, "term", "stop", 30, "revert", 20, "return", 8, "invalid", 8, "selfdestruct", 14, "loop", 3, "oog", 6,
		"underflow", 5, "badjump", 3)
	if p.Term == "selfdestruct" {
		p.Ben = genTarget(t, g)
	}
	return p
}

func genInit(t *rapid.T, g genCtx) *Init {
	g.self = -1
	in := &Init{Ctor: genActs(t, 1, 3, g)}
	in.End = weighted(t, "initend", "code", 45, "stop", 8, "revert", 15, "invalid", 8, "oog", 8, "zeros", 16)
	switch in.End {
	case "code":
		p := genProgram(t, 1, g)
		in.Runtime = &p
	case "zeros":
		in.ZeroLen = pick(t, "zerolen", []int{1, 32, 100, 100, 1000, 5000, 24576, 24577})
	}
	return in
}

func genTx(t *rapid.T, n int) Tx {
	tx := Tx{}
	if uni(t, "entry0", 10) >= 7 {
		tx.Entry = uni(t, "entry", 5)
	}
	if k := uni(t, "txkind", 100); k >= 88 {
		tx.Init = genInit(t, genCtx{-1, n})
	} else if k >= 81 {
		tx.Native = &NativeCall{N: 1 + uni(t, "native", 8), Vec: uni(t, "vec", 12)}
	}
	tx.Value = pick(t, "txvalue", []int{0, 0, 0, 0, 1, 1, 5, 5, 5, 5, 5, 2000})
	tx.GasMode = weighted(t, "txgas", "ample", 36, "mid", 30, "tiny", 4, "exact", 10, "frac", 20)
	switch tx.GasMode {
	case "tiny":
		tx.GasMode, tx.Gas = "fixed", 1+uni(t, "gas", 3000)
	case "mid":
		// log-uniform over 4k .. 512k
		sh := 12 + uni(t, "gassh", 7)
		tx.GasMode, tx.Gas = "fixed", (1<<uint(sh))+uni(t, "gaslo", 1<<uint(sh))
	case "ample":
		tx.GasMode, tx.Gas = "fixed", ampleGas
	case "exact":
		tx.Delta = uni(t, "delta", 5) - 3
	case "frac":
		tx.Pct = 5 + uni(t, "pct", 95)
	}
	if tx.Native != nil {
		// gas around what the native contract requires, or plenty
		tx.GasMode, tx.Gas = "fixed", ampleGas
		if uni(t, "ntxgas", 10) >= 3 {
			g := int(specNative(tx.Native.N, nativeVector(tx.Native.N, tx.Native.Vec)).gas) + uni(t, "delta", 5) - 2
			if g < 1 {
				g = 1
			}
			tx.Gas = g
		}
		tx.Value = pick(t, "ntxvalue", []int{5, 0, 1, 5, 2000})
	}
	return tx
}

const ampleGas = 700000

func genCase(t *rapid.T) Case {
	var c Case
	n := 2 + uni(t, "ncontracts", 4)
	for i := 0; i < n; i++ {
		ct := Contract{Prog: genProgram(t, 0, genCtx{i, n})}
		ct.Balance = pick(t, "balance", []int{0, 0, 1, 2, 5, 20})
		for s := range ct.Storage {
			if uni(t, "stor", 10) >= 7 {
				ct.Storage[s] = 0xAA00 + 16*i + s
			}
		}
		c.Contracts = append(c.Contracts, ct)
	}
	// the entry contract usually calls into the tree
	if uni(t, "linked", 10) >= 2 {
		for i := 0; i+1 < n && i < 3; i++ {
			a := Action{Op: weighted(t, "lop", "call", 6, "delegatecall", 2, "staticcall", 1, "callcode", 1), To: Target{K: "c", I: i + 1}}
			if a.Op == "call" || a.Op == "callcode" {
				a.Value = genValue(t)
			}
			genGas(t, &a)
			a.Bubble = uni(t, "bubble", 10) >= 7
			acts := c.Contracts[i].Prog.Acts
			at := uni(t, "lat", len(acts)+1)
			acts = append(acts[:at:at], append([]Action{a}, acts[at:]...)...)
			c.Contracts[i].Prog.Acts = acts
			if uni(t, "chain", 10) >= 6 {
				break
			}
		}
	}
	if uni(t, "nativecall", 100) >= 80 {
		// a call of a native contract, usually carrying value, somewhere in the tree
		a := Action{Op: weighted(t, "nop", "call", 7, "callcode", 1, "delegatecall", 1, "staticcall", 1), To: Target{K: "pre", I: 1 + uni(t, "native", 8)}}
		genNative(t, &a)
		if a.Op == "call" || a.Op == "callcode" {
			a.Value = pick(t, "nvalue", []int{1, 0, 1, 2, 1})
		}
		a.Bubble = uni(t, "bubble", 10) >= 8
		i := uni(t, "ncontract", n)
		acts := c.Contracts[i].Prog.Acts
		at := uni(t, "lat", len(acts)+1)
		c.Contracts[i].Prog.Acts = append(acts[:at:at], append([]Action{a}, acts[at:]...)...)
	}
	c.PrefundNative = uni(t, "prefund", 10) >= 7
	c.Txs = append(c.Txs, genTx(t, n))
	if uni(t, "second", 100) >= 65 {
		c.Txs = append(c.Txs, genTx(t, n))
		if uni(t, "revisit", 10) >= 6 {
			// the second transaction enters where the first did (meets what the first created or destroyed)
			c.Txs[1].Entry, c.Txs[1].Init, c.Txs[1].Native = c.Txs[0].Entry, c.Txs[0].Init, c.Txs[0].Native
		}
		c.SecondTx = weighted(t, "secondtx", "same", 65, "copy", 35)
		if kit.IsKnown(classResurrect) {
			c.Avoid = append(c.Avoid, classResurrect)
		}
		if c.SecondTx == "same" && kit.IsKnown(classC09) && c.Txs[1].Native == nil && (c.Txs[1].Init != nil || !singleFrame(&c.Contracts[c.Txs[1].Entry%n].Prog)) {
			// known, unrepaired defect of core/state (C09): a StateDB that finalised a transaction keeps stale
			// validator-journal revision ids, and a revert nested in a revert then panics. Excluded by
			// construction: unless the second transaction cannot nest frames at all, it runs on a Copy()
			// of the finalised state (which starts with empty revision lists).
			c.SecondTx = "copy"
			c.Excluded = append(c.Excluded, classC09)
		}
	}
	return c
}

// singleFrame reports whether a program can never open a second frame.
func singleFrame(p *Program) bool {
	for _, a := range p.Acts {
		switch a.Op {
		case "call", "callcode", "delegatecall", "staticcall", "create", "create2":
			return false
		}
	}
	return true
}
