// Package kit is the shared harness library of the /verif property checks.
package kit
