// Package kit is the shared harness library of the /verif property checks.
//
// A check package registers properties with Register and exposes three test
// entry points (see checks/c13 for the canonical shape):
//
//	func TestMain(m *testing.M)    { kit.Main(m, "C13") }
//	func TestProps(t *testing.T)   { kit.RunAll(t) }
//	func TestReplay(t *testing.T)  { kit.ReplayAll(t) }
//
// A property is (generator, pure runCase, non-triviality rule). The generator
// draws a plain-data Case with rapid; runCase is a pure function of the case and
// the code under test and returns a Result. Failing cases are shrunk by rapid and
// the minimal one is written as JSON; replay bypasses rapid entirely.
package kit

import (
	"encoding/json"
	"flag"
	"fmt"
	"hash/fnv"
	"os"
	"path/filepath"
	"runtime"
	"runtime/debug"
	"sort"
	"strconv"
	"strings"
	"sync"
	"testing"
	"time"

	"pgregory.net/rapid"
)

// Violation describes a property violation found by runCase.
type Violation struct {
	Class string `json:"class"`
	Msg   string `json:"msg"`
}

// Result is what runCase returns for one generated case.
type Result struct {
	Violation  *Violation
	Discard    string   // non-empty: case is outside the domain (counted, not evaluated)
	NonTrivial bool     // case exercised the anchored mechanism by the property's stated rule
	Labels     []string // distribution labels
}

// OK builds a passing result.
func OK(nontrivial bool, labels ...string) Result {
	return Result{NonTrivial: nontrivial, Labels: labels}
}

// Fail builds a violating result.
func Fail(class, format string, args ...interface{}) Result {
	return Result{Violation: &Violation{Class: class, Msg: fmt.Sprintf(format, args...)}, NonTrivial: true}
}

// Discarded builds a discarded result.
func Discarded(reason string) Result { return Result{Discard: reason} }

// Prop is one registered property run.
type Prop[C any] struct {
	Name     string
	Rule     string // how cases are generated and what makes one non-trivial
	Gen      func(t *rapid.T) C
	Run      func(c C) Result
	Quick    int // cases per shard, quick tier
	Thorough int // cases per shard, thorough tier
	Chunk    int // cases per rapid.Check invocation (default 200)
	// MinNonTrivialPct: generator health threshold; a finished run whose
	// non-trivial fraction is below it is reported as a broken generator (exit 2).
	MinNonTrivialPct float64
	// Budget overrides the default soft time budget per tier (seconds); 0 = default.
	QuickBudgetS    int
	ThoroughBudgetS int
}

type anyProp interface {
	name() string
	check(t *testing.T)
	replay(raw json.RawMessage) (Result, error)
}

var (
	registry []anyProp
	property string
)

// Register adds a property to the package registry (call from init or var block).
func Register[C any](p Prop[C]) bool {
	registry = append(registry, &propImpl[C]{p: p})
	return true
}

type propImpl[C any] struct{ p Prop[C] }

func (pi *propImpl[C]) name() string { return pi.p.Name }

// ---------------------------------------------------------------------------------
// configuration from the environment

type config struct {
	tier   string
	seed   uint64
	shard  int
	shards int
	out    string // directory for stats and failing cases
	root   string // /verif
	only   string // restrict to one prop
	scale  float64
}

var cfg config

func envInt(name string, def int) int {
	if v := os.Getenv(name); v != "" {
		if n, err := strconv.Atoi(v); err == nil {
			return n
		}
	}
	return def
}

func loadConfig() {
	cfg.tier = os.Getenv("VERIF_TIER")
	if cfg.tier != "thorough" {
		cfg.tier = "quick"
	}
	cfg.seed = uint64(envInt("VERIF_SEED", 1))
	cfg.shard = envInt("VERIF_SHARD", 0)
	cfg.shards = envInt("VERIF_SHARDS", 1)
	cfg.out = os.Getenv("VERIF_OUT")
	cfg.root = os.Getenv("VERIF_ROOT")
	if cfg.root == "" {
		_, file, _, _ := runtime.Caller(0)
		cfg.root = filepath.Dir(filepath.Dir(file))
	}
	if cfg.out == "" {
		cfg.out = filepath.Join(os.TempDir(), "verif-out-"+strconv.Itoa(os.Getpid()))
	}
	cfg.only = os.Getenv("VERIF_PROP")
	cfg.scale = 1
	if v := os.Getenv("VERIF_SCALE"); v != "" {
		if f, err := strconv.ParseFloat(v, 64); err == nil && f > 0 {
			cfg.scale = f
		}
	}
	os.MkdirAll(cfg.out, 0o755)
}

// Root returns the /verif directory.
func Root() string { return cfg.root }

// Tier returns "quick" or "thorough".
func Tier() string { return cfg.tier }

// Thorough reports whether the thorough tier is running.
func Thorough() bool { return cfg.tier == "thorough" }

// Shard returns (shard, shards).
func Shard() (int, int) { return cfg.shard, cfg.shards }

// Seed returns VERIF_SEED.
func Seed() uint64 { return cfg.seed }

// Main is the TestMain body of every check package.
func Main(m *testing.M, prop string) {
	property = prop
	loadConfig()
	loadKnown()
	InstallLogTrap()
	code := m.Run()
	flushStats()
	os.Exit(code)
}

func splitmix(x uint64) uint64 {
	x += 0x9e3779b97f4a7c15
	x = (x ^ (x >> 30)) * 0xbf58476d1ce4e5b9
	x = (x ^ (x >> 27)) * 0x94d049bb133111eb
	return x ^ (x >> 31)
}

func hashString(s string) uint64 {
	h := fnv.New64a()
	h.Write([]byte(s))
	return h.Sum64()
}

func chunkSeed(name string, chunk int) uint64 {
	s := splitmix(cfg.seed*0x100000001b3 ^ splitmix(uint64(cfg.shard)+1) ^ splitmix(hashString(name)) ^ splitmix(uint64(chunk)<<20))
	s &= (1 << 62) - 1 // leave room: rapid adds the iteration index to the seed
	if s == 0 {
		s = 1
	}
	return s
}

// ---------------------------------------------------------------------------------
// statistics

type propStats struct {
	Name        string         `json:"name"`
	Rule        string         `json:"rule"`
	Evaluations int            `json:"evaluations"`
	Discards    int            `json:"discards"`
	DiscardWhy  map[string]int `json:"discard_reasons,omitempty"`
	NonTrivial  int            `json:"nontrivial"`
	Labels      map[string]int `json:"labels"`
	Samples     []interface{}  `json:"samples"`
	KnownHits   map[string]int `json:"known_hits,omitempty"`
	Requested   int            `json:"requested"`
	WallS       float64        `json:"wall_s"`
	BudgetHit   bool           `json:"budget_hit"`
	MinNTPct    float64        `json:"min_nontrivial_pct"`
	Failed      bool           `json:"failed"`
	hashes      map[uint64]struct{}
	frozen      bool // set after the first failure: shrinking runs are not counted
}

var (
	statsMu  sync.Mutex
	allStats = map[string]*propStats{}
	failures []failureRec
)

type failureRec struct {
	Prop   string `json:"prop"`
	Class  string `json:"class"`
	Msg    string `json:"msg"`
	Replay string `json:"replay"`
}

func statsFor(name, rule string) *propStats {
	statsMu.Lock()
	defer statsMu.Unlock()
	s := allStats[name]
	if s == nil {
		s = &propStats{Name: name, Rule: rule, Labels: map[string]int{}, DiscardWhy: map[string]int{},
			KnownHits: map[string]int{}, hashes: map[uint64]struct{}{}}
		allStats[name] = s
	}
	return s
}

const maxSampleBytes = 6000

func (s *propStats) record(raw []byte, res Result) {
	statsMu.Lock()
	defer statsMu.Unlock()
	if s.frozen {
		return
	}
	if res.Discard != "" {
		s.Discards++
		s.DiscardWhy[res.Discard]++
		return
	}
	s.Evaluations++
	for _, l := range res.Labels {
		s.Labels[l]++
	}
	if res.NonTrivial {
		s.NonTrivial++
		s.hashes[hashBytes(raw)] = struct{}{}
		if len(s.Samples) < 3 {
			s.Samples = append(s.Samples, sampleOf(raw))
		}
	}
}

func sampleOf(raw []byte) interface{} {
	if len(raw) <= maxSampleBytes {
		return json.RawMessage(append([]byte(nil), raw...))
	}
	return map[string]interface{}{"truncated_json_prefix": string(raw[:maxSampleBytes]), "full_bytes": len(raw)}
}

func hashBytes(b []byte) uint64 {
	h := fnv.New64a()
	h.Write(b)
	return h.Sum64()
}

func flushStats() {
	statsMu.Lock()
	defer statsMu.Unlock()
	if len(allStats) == 0 && len(failures) == 0 {
		return
	}
	names := make([]string, 0, len(allStats))
	for n := range allStats {
		names = append(names, n)
	}
	sort.Strings(names)
	type out struct {
		Property string        `json:"property"`
		Tier     string        `json:"tier"`
		Seed     uint64        `json:"seed"`
		Shard    int           `json:"shard"`
		Props    []*propStats  `json:"props"`
		Failures []failureRec  `json:"failures"`
		Extra    []interface{} `json:"extra,omitempty"`
	}
	o := out{Property: property, Tier: cfg.tier, Seed: cfg.seed, Shard: cfg.shard, Failures: failures, Extra: extras}
	for _, n := range names {
		o.Props = append(o.Props, allStats[n])
	}
	base := filepath.Join(cfg.out, fmt.Sprintf("stats.%d", cfg.shard))
	b, _ := json.MarshalIndent(o, "", " ")
	os.WriteFile(base+".json", b, 0o644)
	// distinct non-trivial hashes, one file per prop, 16 hex chars per line
	for _, n := range names {
		var sb strings.Builder
		for h := range allStats[n].hashes {
			sb.WriteString(strconv.FormatUint(h, 16))
			sb.WriteByte('\n')
		}
		os.WriteFile(fmt.Sprintf("%s.%s.hashes", base, n), []byte(sb.String()), 0o644)
	}
}

var extras []interface{}

// Extra attaches a free-form record to this process's stats (e.g. exhaustive sub-run sizes).
func Extra(v interface{}) {
	statsMu.Lock()
	extras = append(extras, v)
	statsMu.Unlock()
}

// ---------------------------------------------------------------------------------
// running

func safeRun[C any](run func(C) Result, c C) (res Result) {
	defer func() {
		if r := recover(); r != nil {
			if cp, ok := r.(critPanic); ok {
				res = Fail("crit", "logging.Crit fired: %s", string(cp))
				return
			}
			res = Fail("panic", "panic: %v\n%s", r, trimStack(debug.Stack()))
		}
	}()
	return run(c)
}

func trimStack(b []byte) string {
	s := string(b)
	if len(s) > 3000 {
		s = s[:3000] + "..."
	}
	return s
}

func (pi *propImpl[C]) check(t *testing.T) {
	p := pi.p
	st := statsFor(p.Name, p.Rule)
	st.MinNTPct = p.MinNonTrivialPct
	n := p.Quick
	budget := 90 * time.Second
	if p.QuickBudgetS > 0 {
		budget = time.Duration(p.QuickBudgetS) * time.Second
	}
	if cfg.tier == "thorough" {
		n = p.Thorough
		budget = 12 * time.Minute
		if p.ThoroughBudgetS > 0 {
			budget = time.Duration(p.ThoroughBudgetS) * time.Second
		}
	}
	if v := envInt("VERIF_BUDGET_S", 0); v > 0 {
		budget = time.Duration(v) * time.Second
	}
	n = int(float64(n) * cfg.scale)
	if n < 1 {
		n = 1
	}
	chunk := p.Chunk
	if chunk <= 0 {
		chunk = 200
	}
	st.Requested = n
	start := time.Now()
	defer func() { st.WallS = time.Since(start).Seconds() }()

	prop := func(rt *rapid.T) {
		c := p.Gen(rt)
		res := safeRun(p.Run, c)
		raw, err := json.Marshal(c)
		if err != nil {
			panic("kit: case is not JSON-serialisable: " + err.Error())
		}
		st.record(raw, res)
		if res.Discard != "" {
			rt.Skip(res.Discard)
		}
		if res.Violation != nil {
			if k := knownClass(res.Violation.Class); k != nil {
				statsMu.Lock()
				if !st.frozen {
					st.KnownHits[res.Violation.Class]++
				}
				statsMu.Unlock()
				return
			}
			statsMu.Lock()
			st.frozen = true
			st.Failed = true
			statsMu.Unlock()
			path := saveFailure(p.Name, raw, res.Violation)
			rt.Fatalf("VIOLATION class=%s replay=%s\n%s", res.Violation.Class, path, res.Violation.Msg)
		}
	}

	flag.Set("rapid.nofailfile", "true")
	flag.Set("rapid.shrinktime", "20s")
	done := 0
	for k := 0; done < n; k++ {
		if time.Since(start) > budget {
			st.BudgetHit = true
			t.Logf("[kit] %s: soft budget %v hit after %d/%d cases", p.Name, budget, done, n)
			break
		}
		m := chunk
		if n-done < m {
			m = n - done
		}
		flag.Set("rapid.checks", strconv.Itoa(m))
		flag.Set("rapid.seed", strconv.FormatUint(chunkSeed(p.Name, k), 10))
		rapid.Check(t, prop)
		if t.Failed() {
			return
		}
		done += m
	}
}

// lastFailure keeps, per prop, the path of the failing case file; every failing
// execution overwrites it, and rapid's final execution is the minimal case.
func saveFailure(prop string, raw []byte, v *Violation) string {
	dir := filepath.Join(cfg.out, "fail")
	os.MkdirAll(dir, 0o755)
	path := filepath.Join(dir, fmt.Sprintf("%s.s%d.json", prop, cfg.shard))
	rec := ReplayFile{Property: property, Prop: prop, Class: v.Class, Msg: v.Msg, Seed: cfg.seed, Case: raw}
	b, _ := json.MarshalIndent(rec, "", " ")
	os.WriteFile(path, b, 0o644)
	statsMu.Lock()
	found := false
	for i := range failures {
		if failures[i].Prop == prop {
			failures[i] = failureRec{Prop: prop, Class: v.Class, Msg: firstLines(v.Msg, 12), Replay: path}
			found = true
		}
	}
	if !found {
		failures = append(failures, failureRec{Prop: prop, Class: v.Class, Msg: firstLines(v.Msg, 12), Replay: path})
	}
	statsMu.Unlock()
	return path
}

func firstLines(s string, n int) string {
	lines := strings.SplitN(s, "\n", n+1)
	if len(lines) > n {
		lines = lines[:n]
	}
	return strings.Join(lines, "\n")
}

// ReplayFile is the on-disk form of a failing (or regression) case.
type ReplayFile struct {
	Property string          `json:"property"`
	Prop     string          `json:"prop"`
	Class    string          `json:"class,omitempty"`
	Msg      string          `json:"msg,omitempty"`
	Seed     uint64          `json:"seed,omitempty"`
	Expect   string          `json:"expect,omitempty"` // "" / "pass": must not violate; "known": see known_findings.json
	Case     json.RawMessage `json:"case"`
}

func (pi *propImpl[C]) replay(raw json.RawMessage) (Result, error) {
	var c C
	if err := json.Unmarshal(raw, &c); err != nil {
		return Result{}, err
	}
	return safeRun(pi.p.Run, c), nil
}

// RunAll runs every registered property (or the one named by VERIF_PROP).
func RunAll(t *testing.T) {
	for _, p := range registry {
		if cfg.only != "" && cfg.only != p.name() {
			continue
		}
		p := p
		t.Run(p.name(), func(t *testing.T) { p.check(t) })
	}
}

// ReplayAll replays the file named by VERIF_REPLAY, or every committed replay of
// this property under replays/<id>/ (regression tier). Output lines are parsed by
// the driver:
//
//	REPLAY file=<path> prop=<name> verdict=ok|violation|discard class=<class>
func ReplayAll(t *testing.T) {
	var files []string
	if f := os.Getenv("VERIF_REPLAY"); f != "" {
		files = []string{f}
	} else {
		dir := filepath.Join(cfg.root, "replays", strings.ToLower(property))
		m, _ := filepath.Glob(filepath.Join(dir, "*.json"))
		sort.Strings(m)
		files = m
	}
	for _, f := range files {
		b, err := os.ReadFile(f)
		if err != nil {
			t.Errorf("replay %s: %v", f, err)
			continue
		}
		var rf ReplayFile
		if err := json.Unmarshal(b, &rf); err != nil {
			t.Errorf("replay %s: %v", f, err)
			continue
		}
		var target anyProp
		for _, p := range registry {
			if p.name() == rf.Prop {
				target = p
			}
		}
		if target == nil {
			t.Errorf("replay %s: unknown prop %q", f, rf.Prop)
			continue
		}
		res, err := target.replay(rf.Case)
		if err != nil {
			t.Errorf("replay %s: %v", f, err)
			continue
		}
		verdict, class, msg := "ok", "-", ""
		if res.Discard != "" {
			verdict = "discard"
		}
		if res.Violation != nil {
			verdict, class, msg = "violation", res.Violation.Class, res.Violation.Msg
		}
		fmt.Printf("REPLAY file=%s prop=%s verdict=%s class=%s\n", f, rf.Prop, verdict, class)
		if msg != "" {
			fmt.Printf("REPLAY-MSG %s\n", strings.ReplaceAll(firstLines(msg, 120), "\n", "\nREPLAY-MSG "))
		}
	}
}

// ---------------------------------------------------------------------------------
// known findings

type knownEntry struct {
	Property string `json:"property"`
	Status   string `json:"status"` // "known" | "fixed"
	Class    string `json:"class"`
	Replay   string `json:"replay"`
	What     string `json:"what"`
	Commit   string `json:"commit,omitempty"`
}

var known []knownEntry

func loadKnown() {
	b, err := os.ReadFile(filepath.Join(cfg.root, "known_findings.json"))
	if err != nil {
		return
	}
	var all []knownEntry
	if json.Unmarshal(b, &all) != nil {
		return
	}
	for _, e := range all {
		if e.Property == property {
			known = append(known, e)
		}
	}
}

func knownClass(class string) *knownEntry {
	for i := range known {
		if known[i].Status == "known" && known[i].Class == class {
			return &known[i]
		}
	}
	return nil
}

// IsKnown reports whether class is a recorded (unrepaired) finding of this property;
// generators use it to exclude the class by construction so the search continues.
func IsKnown(class string) bool { return knownClass(class) != nil }
