package kit

import (
	"fmt"
	"os"

	"github.com/youchainhq/go-youchain/logging"
)

// critPanic is the sentinel panic value raised when the code under test calls
// logging.Crit. The handler runs synchronously before logging's os.Exit(1), so the
// panic unwinds the calling goroutine and a Crit becomes a recoverable failure.
type critPanic string

// debugLog (VERIF_LOG=1) prints warnings and errors of the code under test to stderr (debugging aid).
var debugLog = os.Getenv("VERIF_LOG") != ""

// debugAll (VERIF_LOG=2) prints every level.
var debugAll = os.Getenv("VERIF_LOG") == "2"

// InstallLogTrap discards all log output and turns logging.Crit into a panic.
func InstallLogTrap() {
	logging.Root().SetHandler(logging.FuncHandler(func(r *logging.Record) error {
		if r.Lvl == logging.LvlCrit {
			panic(critPanic(fmt.Sprintf("%s %v", r.Msg, r.Ctx)))
		}
		if debugLog && (debugAll || r.Lvl <= logging.LvlWarn) {
			fmt.Fprintf(os.Stderr, "LOG[%v] %s %v\n", r.Lvl, r.Msg, r.Ctx)
		}
		return nil
	}))
}

// IsCrit reports whether a recovered panic value came from logging.Crit.
func IsCrit(r interface{}) (string, bool) {
	if c, ok := r.(critPanic); ok {
		return string(c), true
	}
	return "", false
}
