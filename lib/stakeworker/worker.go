// Package stakeworker builds blocks of a stakechain.Node with the REAL miner worker
// (miner.worker.commitNewWork, run synchronously through the add-only shim
// hooks/miner/zz_verif_c06.go). It is a package of its own because linking package miner
// pulls in node -> p2p -> quic-go, which needs the overlay_abs replacement of quic-go's
// panicking init() (check.json); only checks that list that overlay may import it.
package stakeworker

import (
	"errors"
	"fmt"
	"time"

	"github.com/youchainhq/go-youchain/common"
	"github.com/youchainhq/go-youchain/core"
	"github.com/youchainhq/go-youchain/core/types"
	"github.com/youchainhq/go-youchain/miner"
	sc "verif/lib/stakechain"
)

var poolConfig = core.TxPoolConfig{
	NoLocals: true, Journal: "", Rejournal: time.Hour, PriceLimit: 1, PriceBump: 10,
	AccountSlots: 64, GlobalSlots: 4096, AccountQueue: 256, GlobalQueue: 1024, Lifetime: 3 * time.Hour,
}

// Builder owns the real worker of one builder node.
type Builder struct {
	n *sc.Node
	w *miner.VerifWorker
}

func New(n *sc.Node) *Builder {
	return &Builder{n: n, w: miner.NewVerifWorker(n.Eng, n.BC, n.Mux)}
}

// Build builds the next block of the node: a fresh real core.TxPool on the current head
// receives the transactions (AddRemotesSync), the real commitNewWork runs synchronously
// (Pending, price/nonce ordering, snapshot/revert per transaction, gas-pool accounting,
// EndBlock(isSeal=true), FinalizeAndAssemble), then engine.Seal and the real postSeal write
// the block and post the chain events.
func (b *Builder) Build(coinbase common.Address, txs []*types.Transaction) (*sc.Built, error) {
	n := b.n
	n.Eng.SetCoinbase(coinbase)
	out := &sc.Built{Rejected: map[common.Hash]string{}}
	pool := core.NewTxPool(poolConfig, n.BC)
	b.w.SetTxPool(pool)
	var task *miner.VerifTask
	func() {
		defer pool.Stop()
		if len(txs) > 0 {
			for i, e := range pool.AddRemotesSync(txs) {
				if e != nil {
					out.Rejected[txs[i].Hash()] = "pool: " + e.Error()
				}
			}
		}
		task = b.w.Build()
	}()
	if task == nil {
		return nil, errors.New("commitNewWork produced no task")
	}
	out.Receipts = task.Receipts()
	block, err := b.w.SealAndWrite(task)
	if err != nil {
		return nil, err
	}
	if n.Head().Hash() != block.Hash() {
		return nil, fmt.Errorf("the worker's block %d is not the builder's head", block.NumberU64())
	}
	out.Block = block
	out.Included = block.Transactions()
	in := map[common.Hash]bool{}
	for _, tx := range out.Included {
		in[tx.Hash()] = true
	}
	for _, tx := range txs {
		if h := tx.Hash(); !in[h] && out.Rejected[h] == "" {
			out.Rejected[h] = "not included by the worker"
		}
	}
	return out, nil
}
