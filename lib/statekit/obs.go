package statekit

import (
	"fmt"
	"sort"
	"strings"

	"github.com/youchainhq/go-youchain/common"
	"github.com/youchainhq/go-youchain/core/state"
	"github.com/youchainhq/go-youchain/params"
)

// Obs is the observation of a state: a flat map from observable name to rendered value.
//
//	acct/<i>/rec   existence, emptiness, balance, nonce, code hash, code, code size, suicided flag
//	acct/<i>/st    storage slots (current and committed value)
//	acct/<i>/dlg   delegator side: delegation balance, validator list, GetDelegationsFrom
//	val/<i>/rec    every scalar field of the validator record
//	val/<i>/dlg    the validator's delegation list
//	stat/k<kind>, stat/r<role>   the statistics consensus reads
//	queue/list, queue/set        the withdraw queue in order / as a multiset
//	logs/<n>, refund, preimages  per-transaction logs, refund counter, preimages
//	srec/..., prel/...           staking records and pending relationships (staking trie)
//	srecs                        ForEachStakingRecord
//	deep/root|valroot|stakingroot|index   computed on a Copy with IntermediateRoot(true)
type Obs map[string]string

func safe(o Obs, key string, f func() string) {
	defer func() {
		if r := recover(); r != nil {
			o[key] = fmt.Sprintf("PANIC: %v", r)
		}
	}()
	o[key] = f()
}

func renderVal(v *state.Validator) string {
	return fmt.Sprintf("name=%s op=%x cb=%x role=%d status=%d expelled=%v expelExpired=%d lastInactive=%d token=%v stake=%v selfToken=%v selfStake=%v rdist=%v rtotal=%v rsettled=%d accept=%d comm=%d risk=%d ext=%d:%x lastActive=%d pub=%x bls=%x",
		v.Name, v.OperatorAddress[17:], v.Coinbase[17:], v.Role, v.Status, v.Expelled, v.ExpelExpired, v.LastInactive, v.Token, v.Stake, v.SelfToken, v.SelfStake,
		v.RewardsDistributable, v.RewardsTotal, v.RewardsLastSettled, v.AcceptDelegation, v.CommissionRate, v.RiskObligation, v.Ext.Version, []byte(v.Ext.Data), v.LastActive(),
		[]byte(v.MainPubKey[:4]), []byte(v.BlsPubKey[:2]))
}

func renderDlgs(v *state.Validator) string {
	var parts []string
	for _, d := range v.Delegations {
		if d == nil {
			parts = append(parts, "<nil>")
			continue
		}
		parts = append(parts, fmt.Sprintf("%x:%v:%v", d.Delegator[17:], d.Token, d.Stake))
	}
	return "[" + strings.Join(parts, " ") + "]"
}

func renderRecord(r *state.WithdrawRecord) string {
	if r == nil {
		return "<nil>"
	}
	return fmt.Sprintf("{op=%x n=%d v=%x d=%x to=%x c=%d m=%d init=%v final=%v fin=%d tx=%x}", r.Operator[17:], r.Nonce, r.Validator[:3], r.Delegator[17:], r.Recipient[17:],
		r.CreationHeight, r.CompletionHeight, r.InitialBalance, r.FinalBalance, r.Finished, r.TxHash[29:])
}

// ObserveAPI reads every observable through the read-only API of st itself.
func (m *Machine) ObserveAPI(st *state.StateDB, staking bool) Obs {
	o := Obs{}
	for i := 0; i < NAll; i++ {
		a := Addrs[i]
		safe(o, fmt.Sprintf("acct/%d/rec", i), func() string {
			return fmt.Sprintf("exist=%v empty=%v bal=%v nonce=%d codehash=%x code=%x size=%d suicided=%v",
				st.Exist(a), st.Empty(a), st.GetBalance(a), st.GetNonce(a), st.GetCodeHash(a).Bytes()[:6], st.GetCode(a), st.GetCodeSize(a), st.HasSuicided(a))
		})
		if i < NAcct {
			safe(o, fmt.Sprintf("acct/%d/st", i), func() string {
				var parts []string
				for s := 0; s < NSlot; s++ {
					k := common.BytesToHash([]byte{byte(s + 1)})
					parts = append(parts, fmt.Sprintf("%x/%x", st.GetState(a, k).Bytes()[31:], st.GetCommittedState(a, k).Bytes()[31:]))
				}
				return strings.Join(parts, " ")
			})
		}
		safe(o, fmt.Sprintf("acct/%d/dlg", i), func() string {
			if !st.Exist(a) {
				return "-"
			}
			so := st.GetOrNewStateObject(a) // exists: returns the live object without creating anything
			var list []string
			for _, v := range so.Delegations() {
				list = append(list, fmt.Sprintf("%x", v[:3]))
			}
			s := fmt.Sprintf("bal=%v list=%v count=%d from=", so.DelegationBalance(), list, st.GetCountOfDelegateTo(a))
			dtos, err := st.GetDelegationsFrom(a)
			if err != nil {
				return s + "ERR:" + err.Error()
			}
			for _, dt := range dtos {
				s += fmt.Sprintf("%x:%v:%v ", dt.Validator[:3], dt.Token, dt.Stake)
			}
			return s
		})
	}
	m.observeValidators(st, o)
	safe(o, "queue/list", func() string {
		var parts []string
		for _, r := range st.GetWithdrawQueue().Records {
			parts = append(parts, renderRecord(r))
		}
		set := append([]string{}, parts...)
		sort.Strings(set)
		o["queue/set"] = strings.Join(set, " ")
		return strings.Join(parts, " ")
	})
	for n, h := range m.TxHashes {
		logs := st.GetLogs(h)
		if len(logs) == 0 {
			continue
		}
		var parts []string
		for _, l := range logs {
			parts = append(parts, fmt.Sprintf("{%x %x %x tx=%x ti=%d bh=%x idx=%d bn=%d}", l.Address[17:], l.Topics, l.Data, l.TxHash[29:], l.TxIndex, l.BlockHash[29:], l.Index, l.BlockNumber))
		}
		o[fmt.Sprintf("logs/%d", n)] = strings.Join(parts, " ")
	}
	o["refund"] = fmt.Sprint(st.GetRefund())
	safe(o, "preimages", func() string {
		var parts []string
		for h, p := range st.Preimages() {
			parts = append(parts, fmt.Sprintf("%x=%x", h[30:], p))
		}
		sort.Strings(parts)
		return strings.Join(parts, " ")
	})
	if staking {
		for v := 0; v < NVal; v++ {
			for d := 0; d <= NDel; d++ {
				da := common.Address{}
				if d < NDel {
					da = Addrs[NAcct+d]
				}
				safe(o, fmt.Sprintf("srec/%d/%d", d, v), func() string {
					r := st.GetStakingRecord(da, ValAddr[v])
					s := "-"
					if r != nil {
						var hs []string
						for _, h := range r.TxHashes {
							hs = append(hs, fmt.Sprintf("%x", h[29:]))
						}
						s = fmt.Sprintf("%v %v", r.FinalValue, hs)
						if got := st.GetStakingRecordValue(da, ValAddr[v]); got.Cmp(r.FinalValue) != 0 {
							s += fmt.Sprintf(" VALUE-GETTER-DISAGREES:%v", got)
						}
					}
					return s + fmt.Sprintf(" rel=%v", st.PendingRelationshipExist(da, ValAddr[v]))
				})
			}
			o[fmt.Sprintf("prel/v%d", v)] = fmt.Sprintf("%d pendingval=%v", st.ValidatorPendingCount(ValAddr[v]), st.PendingValidatorExist(ValAddr[v]))
		}
		for d := 0; d < NDel; d++ {
			o[fmt.Sprintf("prel/d%d", d)] = fmt.Sprint(st.DelegatorPendingCount(Addrs[NAcct+d]))
		}
		// the enumeration staking.processPendingTxs uses (it first writes dirty records into
		// the staking trie, as IntermediateRoot does)
		safe(o, "srecs", func() string {
			var recs []string
			err := st.ForEachStakingRecord(func(d, v common.Address, r *state.Record) error {
				recs = append(recs, fmt.Sprintf("%x>%x=%v/%d", d[17:], v[:3], r.FinalValue, len(r.TxHashes)))
				return nil
			})
			if err != nil {
				recs = append(recs, "ERR:"+err.Error())
			}
			sort.Strings(recs)
			return strings.Join(recs, " ")
		})
	}
	return o
}

// ObserveValidators reads only the validator records and the statistics (what a
// validator-only reader offers).
func (m *Machine) ObserveValidators(st *state.StateDB) Obs {
	o := Obs{}
	m.observeValidators(st, o)
	return o
}

func (m *Machine) observeValidators(st *state.StateDB, o Obs) {
	for i := 0; i < NVal; i++ {
		var v *state.Validator
		safe(o, fmt.Sprintf("val/%d/rec", i), func() string {
			v = st.GetValidatorByMainAddr(ValAddr[i])
			if v == nil {
				return "-"
			}
			return renderVal(v)
		})
		safe(o, fmt.Sprintf("val/%d/dlg", i), func() string {
			if v == nil {
				return "-"
			}
			return renderDlgs(v)
		})
	}
	safe(o, "stat", func() string {
		stat, err := st.GetValidatorsStat()
		if err != nil {
			return "ERR:" + err.Error()
		}
		d := stat.Dump()
		for _, k := range []params.ValidatorKind{params.KindValidator, params.KindChamber, params.KindHouse} {
			o[fmt.Sprintf("stat/k%d", k)] = fmt.Sprintf("%+v", d.Kinds[k])
		}
		for _, r := range []params.ValidatorRole{params.RoleChancellor, params.RoleSenator, params.RoleHouse} {
			o[fmt.Sprintf("stat/r%d", r)] = fmt.Sprintf("%+v", d.Roles[r])
		}
		return "ok"
	})
}

// ObserveDeep adds what can only be seen by flushing: the three roots of
// IntermediateRoot(true) and the address index. It works on
// a Copy so the subject is not disturbed (the fidelity of Copy itself is C10's subject).
func (m *Machine) ObserveDeep(st *state.StateDB, o Obs) {
	defer func() {
		if r := recover(); r != nil {
			o["deep/panic"] = fmt.Sprintf("PANIC: %v", r)
		}
	}()
	cp := st.Copy()
	a, b, c := cp.IntermediateRoot(true)
	o["deep/root"] = fmt.Sprintf("%x", a[:8])
	o["deep/valroot"] = fmt.Sprintf("%x", b[:8])
	o["deep/stakingroot"] = fmt.Sprintf("%x", c[:8])
	var idx []string
	for _, v := range cp.GetValidatorsForUpdate() {
		idx = append(idx, fmt.Sprintf("%x", v.MainAddress().Bytes()[:3]))
	}
	o["deep/index"] = strings.Join(idx, " ")
}

// Observe = ObserveAPI (+ ObserveDeep).
func (m *Machine) Observe(st *state.StateDB, staking, deep bool) Obs {
	o := m.ObserveAPI(st, staking)
	if deep {
		m.ObserveDeep(st, o)
	}
	return o
}

// Diff returns the sorted keys on which a and b differ (optionally only keys accepted by keep).
func Diff(a, b Obs, keep func(string) bool) []string {
	seen := map[string]bool{}
	var out []string
	for k, v := range a {
		if keep != nil && !keep(k) {
			continue
		}
		if w, ok := b[k]; !ok || w != v {
			out = append(out, k)
		}
		seen[k] = true
	}
	for k := range b {
		if seen[k] || (keep != nil && !keep(k)) {
			continue
		}
		out = append(out, k)
	}
	sort.Strings(out)
	return out
}

// Explain renders the differing keys with both values.
func Explain(a, b Obs, keys []string) string {
	var sb strings.Builder
	for i, k := range keys {
		if i >= 8 {
			fmt.Fprintf(&sb, "  ... and %d more keys\n", len(keys)-i)
			break
		}
		fmt.Fprintf(&sb, "  %s\n    want: %s\n    got:  %s\n", k, a[k], b[k])
	}
	return sb.String()
}

// Persistent selects the observables that a commit makes durable (not the
// per-transaction ones: logs, refund, preimages).
func Persistent(k string) bool {
	return !(strings.HasPrefix(k, "logs/") || k == "refund" || k == "preimages")
}

// OnlyPrefixes reports whether every key starts with one of the prefixes.
func OnlyPrefixes(keys []string, prefixes ...string) bool {
	for _, k := range keys {
		ok := false
		for _, p := range prefixes {
			if strings.HasPrefix(k, p) {
				ok = true
			}
		}
		if !ok {
			return false
		}
	}
	return true
}
