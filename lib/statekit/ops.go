package statekit

import (
	"pgregory.net/rapid"
)

// Op is one step of a StateDB history (plain data).
//
// Account operations            (A = index into Addrs)
//
//	addbal A N | subbal A N | setnonce A N | setcode A N | setstate A S N | suicide A |
//	create A M N | log A N | addrefund N | subrefund N | preimage N
//
// Validator operations, each the StateDB part of one production caller (V = validator,
// D = delegator index 0..NDel-1, N = amount in quarter stake units, M = mode):
//
//	vcreate  (teCreate / genesis)        vupdate  (teUpdate)       vdeposit (teDeposit)
//	vwithdraw(teWithdraw+addWithdrawLog) vstatus  (teChangeStatus) dadd (teDelegationAdd)
//	dsub (teDelegationSub)               vreward  (rewardsToPool M=0 / distributeRewards M=1)
//	vsettle (settleValidatorRewards)     vexpel (doPenalize)       vrecover (recoverFromExpiredExpelling)
//	wqfinish N, wqremove N (processWithdrawQueue)   statreward M N (rewards pools of the statistics)
//
// Staking-trie operations:  srec D V N M | prel D V | sreset
// Control:  snap | revert N | fin | iroot | commit M | copy M | emptybase M (first op only)
type Op struct {
	K string `json:"k"`
	A int    `json:"a,omitempty"`
	S int    `json:"s,omitempty"`
	V int    `json:"v,omitempty"`
	D int    `json:"d,omitempty"`
	N uint64 `json:"n,omitempty"`
	M int    `json:"m,omitempty"`
}

// GenCfg selects which families of operations a generator emits.
type GenCfg struct {
	Snapshots bool // snap / revert
	Staking   bool // staking records, pending relationships, staking-trie reset
	Copy      bool // copy
	Commit    bool // commit (with and without reopen)
	MaxOps    int
	// DeepNest raises the share of snap/revert (C09).
	DeepNest bool
}

func amount(t *rapid.T) uint64 {
	switch rapid.IntRange(0, 5).Draw(t, "amtk") {
	case 0:
		return uint64(rapid.IntRange(1, 3).Draw(t, "amt")) // below one stake unit
	case 1:
		return 4 * uint64(rapid.IntRange(1, 6).Draw(t, "amt")) // whole stake units
	default:
		return uint64(rapid.IntRange(1, 40).Draw(t, "amt"))
	}
}

func genAccountOp(t *rapid.T) Op {
	kinds := []string{"addbal", "addbal", "subbal", "setnonce", "setcode", "setstate", "setstate", "setstate", "setparent",
		"suicide", "create", "log", "addrefund", "subrefund", "preimage"}
	op := Op{K: rapid.SampledFrom(kinds).Draw(t, "ak")}
	switch op.K {
	case "addbal", "subbal":
		op.A = rapid.IntRange(0, NAll-1).Draw(t, "a")
		op.N = uint64(rapid.IntRange(0, 9).Draw(t, "n"))
	case "setnonce":
		op.A = rapid.IntRange(0, NAll-1).Draw(t, "a")
		op.N = uint64(rapid.IntRange(0, 3).Draw(t, "n"))
	case "setcode":
		op.A = rapid.IntRange(0, NAcct-1).Draw(t, "a")
		op.N = uint64(rapid.IntRange(0, 3).Draw(t, "n"))
	case "setstate":
		op.A = rapid.IntRange(0, NAcct-1).Draw(t, "a")
		op.S = rapid.IntRange(0, NSlot-1).Draw(t, "s")
		op.N = uint64(rapid.IntRange(0, 3).Draw(t, "n"))
	case "setparent":
		op.A = rapid.IntRange(0, NAcct-1).Draw(t, "a")
		op.S = rapid.IntRange(0, NSlot-1).Draw(t, "s")
	case "suicide":
		op.A = rapid.IntRange(0, NAcct-1).Draw(t, "a")
	case "create":
		op.A = rapid.IntRange(0, NAcct-1).Draw(t, "a")
		op.M = rapid.IntRange(0, 1).Draw(t, "m")
		op.N = uint64(rapid.IntRange(0, 3).Draw(t, "n"))
	case "log":
		op.A = rapid.IntRange(0, NAcct-1).Draw(t, "a")
		op.N = uint64(rapid.IntRange(0, 3).Draw(t, "n"))
	case "addrefund", "subrefund", "preimage":
		op.N = uint64(rapid.IntRange(0, 5).Draw(t, "n"))
	}
	return op
}

func genValidatorOp(t *rapid.T) Op {
	kinds := []string{"vcreate", "vcreate", "vupdate", "vdeposit", "vdeposit", "vwithdraw", "vwithdraw", "vstatus", "vstatus",
		"dadd", "dadd", "dadd", "dadd", "dsub", "dsub", "dsub", "vreward", "vsettle", "vexpel", "vrecover", "wqfinish", "wqremove", "wqremove", "statreward"}
	op := Op{K: rapid.SampledFrom(kinds).Draw(t, "vk")}
	op.V = rapid.IntRange(0, NVal-1).Draw(t, "v")
	switch op.K {
	case "vcreate":
		op.N = amount(t)
		op.M = rapid.IntRange(0, 23).Draw(t, "m") // role, status, acceptDelegation
		op.S = rapid.IntRange(0, 5).Draw(t, "s")  // commission / risk / operator selection
	case "vupdate":
		op.N = uint64(rapid.IntRange(1, 63).Draw(t, "n"))
	case "vdeposit", "vwithdraw":
		op.N = amount(t)
	case "vstatus":
		op.M = rapid.IntRange(0, 3).Draw(t, "m") // bit0: status, bit1: in-place calling style
	case "dadd", "dsub":
		op.D = rapid.IntRange(0, NDel-1).Draw(t, "d")
		op.N = amount(t)
		op.M = rapid.IntRange(0, 1).Draw(t, "m") // dadd: 1 = add to an existing delegation
	case "vreward":
		op.N = uint64(rapid.IntRange(1, 1000).Draw(t, "n"))
		op.M = rapid.IntRange(0, 1).Draw(t, "m")
	case "vexpel":
		op.N = uint64(rapid.IntRange(0, 30).Draw(t, "n")) // penalty percent of the tokens, 0 = expel only
		op.M = rapid.IntRange(0, 1).Draw(t, "m")          // double sign / inactive
	case "wqfinish":
		op.N = uint64(rapid.IntRange(0, 7).Draw(t, "n"))
	case "wqremove":
		op.N = uint64(rapid.IntRange(1, 255).Draw(t, "n")) // bit mask over queue positions
	case "statreward":
		op.M = rapid.IntRange(0, 8).Draw(t, "m")
		op.N = uint64(rapid.IntRange(0, 500).Draw(t, "n"))
	}
	return op
}

func genStakingOp(t *rapid.T) Op {
	op := Op{K: rapid.SampledFrom([]string{"srec", "srec", "srec", "prel", "prel", "sreset"}).Draw(t, "sk")}
	if op.K == "sreset" {
		return op
	}
	op.V = rapid.IntRange(0, NVal-1).Draw(t, "v")
	op.D = rapid.IntRange(0, NDel).Draw(t, "d") // NDel = the zero address (validator's own record)
	if op.K == "srec" {
		op.N = uint64(rapid.IntRange(0, 40).Draw(t, "n"))
		op.M = rapid.IntRange(0, 3).Draw(t, "m") // bit0: with tx hash, bit1: with value
	}
	return op
}

// GenSetup draws a prefix that makes the interesting shapes likely: delegators with a
// nonce, a few validators, a few delegations, and a commit + reopen.
func GenSetup(t *rapid.T) []Op {
	var ops []Op
	if rapid.IntRange(0, 9).Draw(t, "emptybase") < 3 {
		ops = append(ops, Op{K: "emptybase", M: rapid.IntRange(1, 3).Draw(t, "m")})
	}
	for d := 0; d < NDel; d++ {
		if rapid.IntRange(0, 9).Draw(t, "fundd") > 0 {
			ops = append(ops, Op{K: "setnonce", A: NAcct + d, N: 1})
		}
	}
	nv := rapid.IntRange(0, NVal).Draw(t, "nval")
	for v := 0; v < nv; v++ {
		ops = append(ops, Op{K: "vcreate", V: v, N: 4 * uint64(rapid.IntRange(1, 8).Draw(t, "tok")),
			M: rapid.IntRange(0, 23).Draw(t, "m") | 1<<3, S: rapid.IntRange(0, 5).Draw(t, "s")})
	}
	nd := rapid.IntRange(0, 6).Draw(t, "ndlg")
	for i := 0; i < nd && nv > 0; i++ {
		ops = append(ops, Op{K: "dadd", V: rapid.IntRange(0, nv-1).Draw(t, "v"), D: rapid.IntRange(0, NDel-1).Draw(t, "d"), N: amount(t)})
	}
	if nv > 0 {
		nw := rapid.IntRange(0, 3).Draw(t, "nwd")
		for i := 0; i < nw; i++ {
			ops = append(ops, Op{K: "vwithdraw", V: rapid.IntRange(0, nv-1).Draw(t, "v"), N: uint64(rapid.IntRange(1, 3).Draw(t, "n"))})
		}
		nf := rapid.IntRange(0, nw).Draw(t, "nfin")
		for i := 0; i < nf; i++ {
			ops = append(ops, Op{K: "wqfinish", N: uint64(rapid.IntRange(0, 3).Draw(t, "n"))})
		}
	}
	switch rapid.IntRange(0, 5).Draw(t, "setupend") {
	case 0:
	case 1:
		ops = append(ops, Op{K: "iroot"})
	case 2:
		ops = append(ops, Op{K: "fin"})
	default:
		ops = append(ops, Op{K: "commit", M: 1})
	}
	return ops
}

// GenOps draws a history.
func GenOps(t *rapid.T, cfg GenCfg) []Op {
	ops := GenSetup(t)
	// family weights
	wSnap, wTx, wCommit, wCopy, wStaking, wAcct, wVal := 0, 8, 0, 0, 0, 28, 30
	if cfg.Snapshots {
		wSnap = 22
		if cfg.DeepNest {
			wSnap = 36
		}
	}
	if cfg.Commit {
		wCommit = 5
	}
	if cfg.Copy {
		wCopy = 5
	}
	if cfg.Staking {
		wStaking = 8
	}
	total := wSnap + wTx + wCommit + wCopy + wStaking + wAcct + wVal
	one := rapid.Custom(func(t *rapid.T) Op {
		w := rapid.IntRange(0, total-1).Draw(t, "fam")
		switch {
		case w < wSnap:
			if rapid.IntRange(0, 9).Draw(t, "sr") < 5 {
				return Op{K: "snap"}
			}
			return Op{K: "revert", N: uint64(rapid.IntRange(0, 7).Draw(t, "n"))}
		case w < wSnap+wTx:
			return Op{K: rapid.SampledFrom([]string{"fin", "fin", "fin", "iroot"}).Draw(t, "ck")}
		case w < wSnap+wTx+wCommit:
			return Op{K: "commit", M: rapid.IntRange(0, 2).Draw(t, "m")}
		case w < wSnap+wTx+wCommit+wCopy:
			// bit0: which side goes on, bit1: before Finalise, bit2: both sides then append to
			// the same staking records, bit3: in which order
			return Op{K: "copy", M: rapid.IntRange(0, 15).Draw(t, "m")}
		case w < wSnap+wTx+wCommit+wCopy+wStaking:
			return genStakingOp(t)
		case w < wSnap+wTx+wCommit+wCopy+wStaking+wAcct:
			return genAccountOp(t)
		default:
			return genValidatorOp(t)
		}
	})
	// SliceOfN lets rapid drop elements anywhere when it minimises a failing history
	// (the minimum length is drawn separately: SliceOfN alone prefers very short slices)
	minLen := rapid.IntRange(1, cfg.MaxOps).Draw(t, "minops")
	return append(ops, rapid.SliceOfN(one, minLen, cfg.MaxOps).Draw(t, "ops")...)
}

// GenContentAtoms draws a sequence of content-writing operations for the metamorphic
// "roots depend only on content" property: every account is first given a nonce (so it
// is never empty at a transaction boundary, where EIP-158 would delete it together
// with its storage - a designed dependence on grouping), no suicide / re-creation /
// staking-trie reset, no snapshots.
func GenContentAtoms(t *rapid.T, max int) []Op {
	var ops []Op
	for a := 0; a < NAll; a++ {
		ops = append(ops, Op{K: "setnonce", A: a, N: 1})
	}
	setup := GenSetup(t)
	for _, op := range setup {
		switch op.K {
		case "fin", "iroot", "commit", "emptybase":
		default:
			ops = append(ops, op)
		}
	}
	one := rapid.Custom(func(t *rapid.T) Op {
		var op Op
		switch w := rapid.IntRange(0, 99).Draw(t, "fam"); {
		case w < 30:
			op = genAccountOp(t)
		case w < 45:
			op = genStakingOp(t)
		default:
			op = genValidatorOp(t)
		}
		switch op.K {
		case "suicide", "create":
			op = Op{K: "setstate", A: op.A, S: 1, N: 2}
		case "setparent":
			// the value it writes depends on where the last IntermediateRoot fell: not content
			op = Op{K: "setstate", A: op.A, S: op.S, N: 3}
		case "sreset":
			op = Op{K: "statreward", M: 1, N: 7}
		case "setnonce":
			if op.N == 0 {
				op.N = 1
			}
		}
		return op
	})
	minLen := rapid.IntRange(1, max).Draw(t, "minatoms")
	return append(ops, rapid.SliceOfN(one, minLen, max).Draw(t, "atoms")...)
}

// Entities names what an operation reads or writes; two operations that share an
// entity do not commute and keep their relative order in every schedule. "A*" stands
// for "some account that depends on the state" (an operator, a coinbase, a recipient).
func Entities(op Op) []string {
	v := "v" + string(rune('0'+op.V%NVal))
	acct := func(i int) string { return "a" + string(rune('0'+i)) }
	switch op.K {
	case "addbal", "subbal", "setnonce":
		return []string{acct(op.A % NAll)}
	case "setcode", "setstate", "setparent", "log":
		return []string{acct(op.A % NAcct)}
	case "addrefund", "subrefund", "preimage":
		return nil
	case "vcreate", "vupdate", "vstatus", "vreward", "vrecover":
		return []string{v}
	case "vdeposit", "vsettle":
		return []string{v, "A*"}
	case "vwithdraw":
		return []string{v, "q"}
	case "dadd":
		return []string{v, acct(NAcct + op.D%NDel)}
	case "dsub":
		return []string{v, acct(NAcct + op.D%NDel), "q"}
	case "vexpel":
		return []string{v, "q", "pen"}
	case "wqfinish":
		return []string{"q", "A*"}
	case "wqremove":
		return []string{"q"}
	case "statreward":
		return []string{"pool"}
	case "srec":
		return []string{"s" + string(rune('0'+op.D%(NDel+1))) + v}
	case "prel":
		return []string{"prel"}
	}
	return []string{"*"}
}

// Conflict reports whether two operations must keep their relative order.
func Conflict(a, b Op) bool {
	ea, eb := Entities(a), Entities(b)
	for _, x := range ea {
		for _, y := range eb {
			if x == y || x == "*" || y == "*" {
				return true
			}
			if (x == "A*" && y[0] == 'a') || (y == "A*" && x[0] == 'a') {
				return true
			}
		}
	}
	return false
}

// GenStorageOps draws a history concentrated on the storage journal across the
// transactions of a block: two contracts x two slots, a committed pre-state with
// non-zero slots, values from {parent value, 0, 1, 2, 3}, nested snapshots, and mostly
// Finalise-only transaction boundaries (as between the transactions of a block; an
// IntermediateRoot refreshes the original-value cache and is kept rare).
func GenStorageOps(t *rapid.T, max int) []Op {
	var ops []Op
	for a := 0; a < 2; a++ {
		ops = append(ops, Op{K: "addbal", A: a, N: uint64(rapid.IntRange(1, 5).Draw(t, "bal"))})
		for s := 0; s < 2; s++ {
			if v := rapid.IntRange(0, 3).Draw(t, "pre"); v > 0 {
				ops = append(ops, Op{K: "setstate", A: a, S: s, N: uint64(v)})
			}
		}
	}
	switch rapid.IntRange(0, 9).Draw(t, "preend") {
	case 0:
		ops = append(ops, Op{K: "fin"})
	case 1:
		ops = append(ops, Op{K: "iroot"})
	case 2:
		ops = append(ops, Op{K: "commit"})
	default:
		ops = append(ops, Op{K: "commit", M: rapid.IntRange(1, 2).Draw(t, "m")})
	}
	one := rapid.Custom(func(t *rapid.T) Op {
		w := rapid.IntRange(0, 99).Draw(t, "fam")
		a, s := rapid.IntRange(0, 1).Draw(t, "a"), rapid.IntRange(0, 1).Draw(t, "s")
		switch {
		case w < 34:
			return Op{K: "setstate", A: a, S: s, N: uint64(rapid.IntRange(0, 3).Draw(t, "n"))}
		case w < 48:
			return Op{K: "setparent", A: a, S: s}
		case w < 64:
			return Op{K: "snap"}
		case w < 77:
			return Op{K: "revert", N: uint64(rapid.IntRange(0, 3).Draw(t, "n"))}
		case w < 90:
			return Op{K: "fin"}
		case w < 92:
			return Op{K: "iroot"}
		case w < 94:
			return Op{K: "commit", M: rapid.IntRange(0, 2).Draw(t, "m")}
		case w < 96:
			return Op{K: "suicide", A: a}
		case w < 98:
			return Op{K: "create", A: a, M: rapid.IntRange(0, 1).Draw(t, "m"), N: uint64(rapid.IntRange(0, 2).Draw(t, "n"))}
		default:
			return Op{K: "addbal", A: a, N: uint64(rapid.IntRange(0, 2).Draw(t, "n"))}
		}
	})
	minLen := rapid.IntRange(1, max).Draw(t, "minops")
	return append(ops, rapid.SliceOfN(one, minLen, max).Draw(t, "ops")...)
}

// GenLifecycleOps draws a history concentrated on the life cycle of two accounts inside
// one block: value transfers incl. zero-value touches, self-destruct (also repeated, also
// after receiving value again), re-creation, nested snapshots and reverts, mostly within
// few transactions; 40 % of the histories start from a base with committed empty accounts.
func GenLifecycleOps(t *rapid.T, max int) []Op {
	var ops []Op
	if rapid.IntRange(0, 9).Draw(t, "emptybase") < 4 {
		ops = append(ops, Op{K: "emptybase", M: rapid.IntRange(1, 3).Draw(t, "m")})
	}
	for a := 0; a < 2; a++ {
		if rapid.IntRange(0, 2).Draw(t, "fund") > 0 {
			ops = append(ops, Op{K: "addbal", A: a, N: uint64(rapid.IntRange(0, 3).Draw(t, "bal"))})
		}
	}
	if rapid.Bool().Draw(t, "prefin") {
		ops = append(ops, Op{K: "fin"})
	}
	one := rapid.Custom(func(t *rapid.T) Op {
		w := rapid.IntRange(0, 99).Draw(t, "fam")
		a := rapid.IntRange(0, 1).Draw(t, "a")
		switch {
		case w < 24:
			return Op{K: "addbal", A: a, N: uint64(rapid.IntRange(0, 2).Draw(t, "n"))}
		case w < 40:
			return Op{K: "suicide", A: a}
		case w < 58:
			return Op{K: "snap"}
		case w < 73:
			return Op{K: "revert", N: uint64(rapid.IntRange(0, 3).Draw(t, "n"))}
		case w < 81:
			return Op{K: "fin"}
		case w < 83:
			return Op{K: "iroot"}
		case w < 85:
			return Op{K: "commit", M: rapid.IntRange(0, 2).Draw(t, "m")}
		case w < 91:
			return Op{K: "create", A: a, M: rapid.IntRange(0, 1).Draw(t, "m"), N: uint64(rapid.IntRange(0, 2).Draw(t, "n"))}
		case w < 95:
			return Op{K: "subbal", A: a, N: uint64(rapid.IntRange(0, 2).Draw(t, "n"))}
		case w < 98:
			return Op{K: "setstate", A: a, S: 0, N: uint64(rapid.IntRange(0, 2).Draw(t, "n"))}
		default:
			return Op{K: "setnonce", A: a, N: uint64(rapid.IntRange(0, 1).Draw(t, "n"))}
		}
	})
	minLen := rapid.IntRange(1, max).Draw(t, "minops")
	return append(ops, rapid.SliceOfN(one, minLen, max).Draw(t, "ops")...)
}
