package statekit

import (
	"fmt"
	"math/big"
	"sort"
	"strings"

	"github.com/youchainhq/go-youchain/common"
	"github.com/youchainhq/go-youchain/core/state"
	"github.com/youchainhq/go-youchain/core/types"
	"github.com/youchainhq/go-youchain/params"
	"github.com/youchainhq/go-youchain/youdb"
)

// Event is a harness-side note about an executed operation, kept per transaction and
// truncated on revert exactly like the journal; the class predicates read it.
type Event struct {
	Kind string // "vj" validator-journal entry, "alias", "inplace", "wqremove"
	V    int
}

// Snap is a live snapshot of the subject.
type Snap struct {
	ID    int
	EvPos int
	Data  interface{}
}

// Machine interprets operations against one StateDB (the subject).
type Machine struct {
	Disk *youdb.MemDatabase
	DB   state.Database
	St   *state.StateDB

	Height   uint64
	TxHashes []common.Hash
	CurTx    common.Hash
	TxIdx    int
	opIdx    int
	TxInBlk  int // transactions finalised since the subject object was created/copied/reopened
	// OpsInTx counts data operations since the last transaction boundary, OpsSinceRoot
	// since the last IntermediateRoot / Commit / reopen.
	OpsInTx, OpsSinceRoot int

	Excl   map[string]bool
	Live   []Snap
	Events []Event
	// shadow of the two revision lists as the code under test maintains them (only used
	// to attribute the val-revision-list class and to steer around it)
	shValid, shVal []int

	Labels     map[string]bool
	Roots      [3]common.Hash
	Committed  bool
	SinceBlock int
	// delegation lists (joined validator addresses) whose blob is in the node database
	CommittedDlg map[string]bool
	// a validator was created since the index was last written to the validator trie
	UnflushedCreate bool
	// ContentOnly makes everything an operation writes independent of where the
	// transaction and block boundaries fall (fixed height, fixed transaction hash in
	// records) and refuses operations that would empty a validator; used by the
	// metamorphic roots-depend-only-on-content property.
	ContentOnly bool
	// DeadBalance[a]: the account was deleted by a transaction boundary (self-destructed)
	// while holding a balance; createObject hands that balance to the next object created
	// at the address (recorded under C16 as deleted-account-balance-resurrected).
	DeadBalance [NAcct]bool
	Resurrected bool
	lastOpened  *state.StateDB
	// a staking record was written since the last Commit: its key preimage may live
	// only in the secure-key cache of the subject's staking trie
	UncommittedSrec bool
	// DirtySrec: a record is still only in the dirty set (a Copy carries it along);
	// FlushedSrec: a record was written to the staking trie (IntermediateRoot or
	// ForEachStakingRecord) and is not committed yet (a Copy cannot name it).
	DirtySrec, FlushedSrec bool
	// ParentVal[a][s]: value of the storage slot when the tries were last brought up to date
	// (state creation, IntermediateRoot, Commit, reopen) - "the parent/committed value".
	ParentVal [NAcct][NSlot]common.Hash
	// AcctDirtySinceRoot: an account object was modified since the last IntermediateRoot,
	// so after Finalise it sits in both the pending and the dirty set.
	AcctDirtySinceRoot bool
}

// NoteFlush records that dirty staking records were written to the trie (the harness
// enumerated them with ForEachStakingRecord).
func (m *Machine) NoteFlush() {
	if m.DirtySrec {
		m.DirtySrec, m.FlushedSrec = false, true
	}
}

var noAccountTouched = map[string]bool{"srec": true, "prel": true, "sreset": true, "statreward": true, "wqremove": true,
	"vupdate": true, "vstatus": true, "vreward": true, "vrecover": true, "vcreate": true, "addrefund": true, "subrefund": true,
	"preimage": true, "log": true}

func (m *Machine) recTx() common.Hash {
	if m.ContentOnly {
		return common.BytesToHash([]byte{0x78})
	}
	return m.CurTx
}

// NewMachine creates an empty state on a fresh in-memory database.
func NewMachine(excl []string) *Machine {
	m := &Machine{Disk: youdb.NewMemDatabase(), Excl: map[string]bool{}, Labels: map[string]bool{}, CommittedDlg: map[string]bool{"": true}}
	for _, e := range excl {
		m.Excl[e] = true
	}
	m.DB = state.NewDatabase(m.Disk)
	st, err := state.New(common.Hash{}, common.Hash{}, common.Hash{}, m.DB)
	if err != nil {
		panic(err)
	}
	m.St = st
	m.Height = 10
	m.nextTx()
	return m
}

func (m *Machine) label(l string) { m.Labels[l] = true }

// SortedLabels returns the labels collected so far.
func (m *Machine) SortedLabels() []string {
	var ls []string
	for l := range m.Labels {
		ls = append(ls, l)
	}
	sort.Strings(ls)
	return ls
}

func (m *Machine) nextTx() {
	n := len(m.TxHashes)
	m.CurTx = common.BytesToHash([]byte{0x77, byte(n >> 8), byte(n)})
	m.TxHashes = append(m.TxHashes, m.CurTx)
	m.TxIdx = n
	m.St.Prepare(m.CurTx, BlockHash, m.TxIdx)
}

func (m *Machine) event(kind string, v int) { m.Events = append(m.Events, Event{kind, v}) }

// ---------------------------------------------------------------------------------
// control operations

// Snapshot takes a snapshot of the subject.
func (m *Machine) Snapshot(data interface{}) int {
	id := m.St.Snapshot()
	m.shValid = append(m.shValid, id)
	m.shVal = append(m.shVal, id)
	m.Live = append(m.Live, Snap{ID: id, EvPos: len(m.Events), Data: data})
	return id
}

func indexOf(l []int, id int) int {
	for i, x := range l {
		if x == id {
			return i
		}
	}
	return -1
}

// Poisoned reports whether the shadow of the defective revision lists predicts that the
// live snapshot at position pos can no longer be found in valValidRevisions.
func (m *Machine) Poisoned(pos int) bool {
	id := m.Live[pos].ID
	return indexOf(m.shValid, id) >= 0 && indexOf(m.shVal, id) < 0
}

// PickRevert selects the live snapshot a "revert n" reverts to.
func (m *Machine) PickRevert(n uint64) (int, bool) {
	if len(m.Live) == 0 {
		return 0, false
	}
	var cand []int
	for i := range m.Live {
		if m.Excl[ClsRevisionList] && m.Poisoned(i) {
			continue
		}
		cand = append(cand, i)
	}
	if len(cand) < len(m.Live) {
		m.label("excl:" + ClsRevisionList)
	}
	if len(cand) == 0 {
		return 0, false
	}
	if n == 0 {
		return cand[len(cand)-1], true // the innermost
	}
	return cand[int(n-1)%len(cand)], true
}

// Revert reverts the subject to the live snapshot at position pos. It returns the
// recovered panic value (nil if none) and the events that were undone.
func (m *Machine) Revert(pos int) (pv interface{}, crossed []Event, snap Snap) {
	snap = m.Live[pos]
	func() {
		defer func() { pv = recover() }()
		m.St.RevertToSnapshot(snap.ID)
	}()
	crossed = append(crossed, m.Events[snap.EvPos:]...)
	m.Events = m.Events[:snap.EvPos]
	m.Live = m.Live[:pos]
	// shadow: both lists are truncated with the index found in the first list
	idx := indexOf(m.shValid, snap.ID)
	if idx >= 0 {
		m.shValid = m.shValid[:idx]
		if idx < len(m.shVal) {
			m.shVal = m.shVal[:idx]
		}
	}
	return
}

func slotKey(s int) common.Hash { return common.BytesToHash([]byte{byte(s%NSlot + 1)}) }

// noteParents records the slot values at a point where pending storage was flushed.
func (m *Machine) noteParents() {
	for a := 0; a < NAcct; a++ {
		for s := 0; s < NSlot; s++ {
			m.ParentVal[a][s] = m.St.GetState(Addrs[a], slotKey(s))
		}
	}
}

// noteDeaths is called right before a transaction boundary.
func (m *Machine) noteDeaths() {
	for a := 0; a < NAcct; a++ {
		if m.St.HasSuicided(Addrs[a]) {
			m.DeadBalance[a] = m.St.GetBalance(Addrs[a]).Sign() != 0
		}
	}
}

func (m *Machine) endTxBookkeeping() {
	m.OpsInTx = 0
	m.Live = nil
	m.Events = nil
	m.shValid = m.shValid[:0] // clearJournalAndRefund resets only the first list
	m.TxInBlk++
	m.nextTx()
}

// Finalise is a transaction boundary (Finalise(true) + Prepare of the next transaction).
func (m *Machine) Finalise() {
	m.noteDeaths()
	m.St.Finalise(true)
	m.endTxBookkeeping()
}

// IRoot is a transaction boundary with IntermediateRoot(true).
func (m *Machine) IRoot() [3]common.Hash {
	m.noteDeaths()
	a, b, c := m.St.IntermediateRoot(true)
	m.noteParents()
	m.NoteFlush()
	m.AcctDirtySinceRoot = false
	m.OpsSinceRoot = 0
	m.UnflushedCreate = false
	m.endTxBookkeeping()
	return [3]common.Hash{a, b, c}
}

// Commit commits the subject as core.BlockChain.WriteBlockWithState does.
func (m *Machine) Commit() error {
	m.noteDeaths()
	a, b, c, err := m.St.Commit(true)
	if err != nil {
		return err
	}
	for _, r := range []common.Hash{a, b, c} {
		if err := m.DB.TrieDB().Commit(r, false); err != nil {
			return fmt.Errorf("TrieDB.Commit(%x): %v", r, err)
		}
	}
	m.Roots = [3]common.Hash{a, b, c}
	m.noteParents()
	m.OpsSinceRoot = 0
	m.Committed = true
	m.AcctDirtySinceRoot = false
	m.UncommittedSrec, m.DirtySrec, m.FlushedSrec = false, false, false
	m.UnflushedCreate = false
	m.SinceBlock = 0
	if !m.ContentOnly {
		m.Height++
	}
	for d := 0; d < NDel; d++ {
		m.CommittedDlg[m.dlgListOf(m.St, Addrs[NAcct+d])] = true
	}
	m.endTxBookkeeping()
	return nil
}

// emptyBase makes the history start from a committed state that holds empty accounts
// (nonce 0, balance 0, no code) at Addrs[0] and/or Addrs[1]: the one configuration in
// which deleteEmptyObjects=false is used (a state built without EIP-158 clearing, e.g.
// imported allocations); everything afterwards runs with deleteEmptyObjects=true as the
// chain does. Only as the very first operation. The RIPEMD address is left out: its
// touch survives a revert by design (consensus exception).
func (m *Machine) emptyBase(mask int) bool {
	if m.Committed || m.SinceBlock > 0 || m.OpsSinceRoot > 0 || len(m.TxHashes) > 1 || mask&3 == 0 {
		return false
	}
	for a := 0; a < 2; a++ {
		if mask>>uint(a)&1 == 1 {
			m.St.AddBalance(Addrs[a], new(big.Int))
		}
	}
	a, b, c, err := m.St.Commit(false)
	if err != nil {
		panic(err)
	}
	for _, r := range []common.Hash{a, b, c} {
		if err := m.DB.TrieDB().Commit(r, false); err != nil {
			panic(err)
		}
	}
	m.Roots = [3]common.Hash{a, b, c}
	m.Committed = true
	st, db, disk, err := m.Open(1)
	if err != nil {
		panic(err)
	}
	m.Adopt(st, db, disk)
	m.noteParents()
	m.label("empty-accounts-in-base")
	return true
}

// NoteSrecWrite records that the harness wrote a staking record directly.
func (m *Machine) NoteSrecWrite() { m.UncommittedSrec, m.DirtySrec = true, true }

// dlgListOf returns the delegator-side list of an account as a string ("" if none).
func (m *Machine) dlgListOf(st *state.StateDB, a common.Address) (s string) {
	defer func() {
		if recover() != nil {
			s = "PANIC"
		}
	}()
	if !st.Exist(a) {
		return ""
	}
	var parts []string
	for _, v := range st.GetOrNewStateObject(a).Delegations() {
		parts = append(parts, v.String())
	}
	return strings.Join(parts, ",")
}

// NoGhostAccounts reports whether no account is self-destructed or touched-but-empty in the
// running transaction. Only then may a Copy be taken before Finalise: the copy's journal
// is empty, so its Finalise would not delete such accounts (upstream go-ethereum
// behaviour, which is why upstream callers copy finalised states).
func (m *Machine) NoGhostAccounts() bool {
	for _, a := range append(Addrs[:], PenaltyTo) {
		if m.St.HasSuicided(a) || (m.St.Exist(a) && m.St.Empty(a)) {
			return false
		}
	}
	return true
}

// CopySafe reports whether every delegator's current list is empty or has its blob in
// the node database (otherwise Copy loses it: class copy-loses-delegations).
func (m *Machine) CopySafe() bool {
	for d := 0; d < NDel; d++ {
		if !m.CommittedDlg[m.dlgListOf(m.St, Addrs[NAcct+d])] {
			return false
		}
	}
	return true
}

// Open opens the last committed roots: mode 1 on the same state.Database, mode 2 on a
// byte copy of the disk database under a brand-new node cache.
func (m *Machine) Open(mode int) (*state.StateDB, state.Database, *youdb.MemDatabase, error) {
	db, disk := m.DB, m.Disk
	if mode == 2 {
		disk = youdb.NewMemDatabase()
		for _, k := range m.Disk.Keys() {
			v, _ := m.Disk.Get(k)
			disk.Put(k, v)
		}
		db = state.NewDatabase(disk)
	}
	st, err := state.New(m.Roots[0], m.Roots[1], m.Roots[2], db)
	m.lastOpened = st
	return st, db, disk, err
}

// Adopt makes st the subject (after reopen or copy); snapshot ids of the old subject die.
func (m *Machine) Adopt(st *state.StateDB, db state.Database, disk *youdb.MemDatabase) {
	if st == m.St {
		return
	}
	if st == m.lastOpened {
		m.DeadBalance = [NAcct]bool{} // a state opened from roots holds no deleted objects
	}
	m.St, m.DB, m.Disk = st, db, disk
	m.Live, m.Events = nil, nil
	m.shValid, m.shVal = nil, nil
	m.TxInBlk = 0
	m.St.Prepare(m.CurTx, BlockHash, m.TxIdx)
}

// ---------------------------------------------------------------------------------
// data operations

func (m *Machine) val(i int) *state.Validator { return m.St.GetValidatorByMainAddr(ValAddr[i%NVal]) }

func (m *Machine) addWithdrawRecord(operator, delegator, recipient common.Address, v *state.Validator, amount *big.Int) {
	r := state.NewWithdrawRecord()
	r.Operator = operator
	r.Nonce = uint64(m.opIdx + 1) // unique per operation, like (sender, transaction nonce)
	r.Validator = v.MainAddress()
	r.Delegator = delegator
	r.Recipient = recipient
	r.InitialBalance = new(big.Int).Set(amount)
	r.FinalBalance = new(big.Int).Set(amount)
	r.CreationHeight = m.Height
	r.CompletionHeight = m.Height + WithdrawDelay
	r.TxHash = m.recTx()
	m.St.AddWithdrawRecord(r)
	m.event("vj", -1)
}

// aliasing reports whether UpdateDelegation(d, val, delta) is going to write into the
// part of the Delegations backing array that the old validator object still shows
// (PartialCopy shares the slice): always for an update or a removal, and for an
// insertion only when it shifts elements in place.
func aliasing(val *state.Validator, d common.Address) bool {
	i := val.Delegations.Search(d)
	n := val.Delegations.Len()
	if i < n && val.Delegations[i].Delegator == d {
		return true
	}
	return cap(val.Delegations) > n && i < n
}

func bit(n uint64, i uint) bool { return n>>i&1 == 1 }

// Exec interprets one data operation (idx = its position in the case, used as the unique
// nonce of a withdraw record it may create); it returns false for a no-op (precondition
// of the replayed caller not met).
func (m *Machine) Exec(idx int, op Op) bool {
	if op.K == "emptybase" {
		return m.emptyBase(op.M)
	}
	st := m.St
	m.opIdx = idx
	m.SinceBlock++
	m.OpsInTx++
	m.OpsSinceRoot++
	op = m.retarget(op)
	if !noAccountTouched[op.K] {
		m.AcctDirtySinceRoot = true
	}
	switch op.K {
	// ---- accounts ----------------------------------------------------------------
	case "addbal":
		if a := Addrs[op.A%NAll]; op.N == 0 && st.Exist(a) && st.Empty(a) {
			m.label("touch-existing-empty")
		}
		st.AddBalance(Addrs[op.A%NAll], new(big.Int).SetUint64(op.N))
	case "subbal":
		a := Addrs[op.A%NAll]
		if !st.Exist(a) {
			return false // the payer of a transfer exists
		}
		amt := new(big.Int).SetUint64(op.N)
		if bal := st.GetBalance(a); bal.Cmp(amt) < 0 {
			amt = new(big.Int).Set(bal) // callers check CanTransfer first
		}
		st.SubBalance(a, amt)
	case "setnonce":
		n := op.N
		if op.A%NAll >= NAcct && n == 0 {
			n = 1 // a delegator has sent a transaction
		}
		st.SetNonce(Addrs[op.A%NAll], n)
	case "setcode":
		var code []byte
		if op.N > 0 {
			code = []byte{0x60, byte(op.N), 0x60, 0x00, 0x55}
		}
		if !st.Exist(Addrs[op.A%NAcct]) {
			return false // code is set on an account that CREATE has just made
		}
		st.SetCode(Addrs[op.A%NAcct], code)
	case "setparent":
		// SSTORE of the value the slot had before this block's transactions touched it
		if !st.Exist(Addrs[op.A%NAcct]) {
			return false
		}
		st.SetState(Addrs[op.A%NAcct], slotKey(op.S), m.ParentVal[op.A%NAcct][op.S%NSlot])
		m.label("write-back-parent-value")
	case "setstate":
		if !st.Exist(Addrs[op.A%NAcct]) {
			return false // SSTORE writes to the executing contract, which exists
		}
		st.SetState(Addrs[op.A%NAcct], common.BytesToHash([]byte{byte(op.S%NSlot + 1)}), common.BigToHash(new(big.Int).SetUint64(op.N)))
	case "suicide":
		if st.HasSuicided(Addrs[op.A%NAcct]) && st.GetBalance(Addrs[op.A%NAcct]).Sign() > 0 {
			m.label("suicide-again-after-receiving")
		}
		return st.Suicide(Addrs[op.A%NAcct])
	case "create":
		a := Addrs[op.A%NAcct]
		if op.M&1 == 1 {
			// vm.EVM.create: refused if the address has a nonce or code (collision), else
			// CreateAccount; SetNonce(1) (EIP-158); Transfer
			if st.GetNonce(a) != 0 || (st.Exist(a) && st.GetCodeSize(a) != 0) {
				return false
			}
			st.CreateAccount(a)
			st.SetNonce(a, 1)
			st.AddBalance(a, new(big.Int).SetUint64(op.N))
			return true
		}
		// vm.EVM.Call: if !Exist(addr) { CreateAccount(addr) }; Transfer
		if st.Exist(a) {
			return false
		}
		if m.DeadBalance[op.A%NAcct] && m.Excl[ClsResurrect] {
			m.label("excl:" + ClsResurrect)
			return false
		}
		st.CreateAccount(a)
		if st.GetBalance(a).Sign() != 0 {
			m.Resurrected = true // the new object inherited the balance of a deleted one
			m.label("resurrected-balance")
		}
		m.DeadBalance[op.A%NAcct] = false
		st.AddBalance(a, new(big.Int).SetUint64(op.N))
	case "log":
		st.AddLog(&types.Log{Address: Addrs[op.A%NAcct], Topics: []common.Hash{common.BytesToHash([]byte{byte(op.N)})}, Data: []byte{byte(op.N), 1}, BlockNumber: m.Height})
	case "addrefund":
		st.AddRefund(op.N)
	case "subrefund":
		n := op.N
		if r := st.GetRefund(); n > r {
			n = r
		}
		st.SubRefund(n)
	case "preimage":
		st.AddPreimage(common.BytesToHash([]byte{0x99, byte(op.N)}), []byte{byte(op.N), 2, 3})

	// ---- validators ----------------------------------------------------------------
	case "vcreate": // staking.teCreate / core.Genesis
		v := op.V % NVal
		if st.GetValidatorByMainAddr(ValAddr[v]) != nil {
			return false
		}
		role := params.ValidatorRole(1 + (op.M&3)%3)
		status := uint8(op.M >> 2 & 1)
		accept := uint16(op.M >> 3 & 1)
		token := Tokens(op.N)
		if s := params.YOUToStake(token).Uint64(); s > MaxStake || s < MinSelfStake {
			return false // staking.handleCreate rejects the transaction
		}
		commission := []uint16{0, 500, 10000}[op.S%3]
		risk := []uint16{0, 2000}[op.S%2]
		nv := st.CreateValidator(fmt.Sprintf("v%d-%d", v, op.S), Addrs[op.S%NAll], Addrs[(op.S+1)%NAll], role, ValPub[v], ValBls[v],
			token, params.YOUToStake(token), accept, commission, risk, status)
		if nv == nil {
			return false
		}
		m.UnflushedCreate = true
		m.event("vj", v)
		m.label("vcreate")
	case "vupdate": // staking.teUpdate
		old := m.val(op.V)
		if old == nil {
			return false
		}
		nv := old.PartialCopy()
		if bit(op.N, 0) {
			nv.Name = fmt.Sprintf("n%d", op.N)
		}
		if bit(op.N, 1) {
			nv.OperatorAddress = Addrs[int(op.N)%NAll]
		}
		if bit(op.N, 2) {
			nv.Coinbase = Addrs[int(op.N/2)%NAll]
		}
		if bit(op.N, 3) {
			nv.AcceptDelegation = 1 - nv.AcceptDelegation%2
		}
		if bit(op.N, 4) {
			nv.CommissionRate = uint16(op.N * 37 % 10001)
		}
		if bit(op.N, 5) {
			nv.RiskObligation = uint16(op.N * 91 % 10001)
		}
		st.UpdateValidator(nv, old)
		m.event("vj", op.V%NVal)
	case "vdeposit": // staking.teDeposit
		old := m.val(op.V)
		if old == nil {
			return false
		}
		value := Tokens(op.N)
		nv := old.PartialCopy()
		nv.SelfToken.Add(nv.SelfToken, value)
		newStake := params.YOUToStake(nv.SelfToken)
		delta := new(big.Int).Sub(newStake, nv.SelfStake)
		nv.SelfStake.Set(newStake)
		nv.Token.Add(nv.Token, value)
		nv.Stake.Add(nv.Stake, delta)
		if nv.Stake.Uint64() > MaxStake {
			st.AddBalance(old.OperatorAddress, value) // YouV5: return the detained tokens
			return true
		}
		st.UpdateValidator(nv, old)
		m.event("vj", op.V%NVal)
		if delta.Sign() != 0 {
			m.label("stake-boundary")
		}
	case "vwithdraw": // staking.teWithdraw (YouV5) + addWithdrawLog
		old := m.val(op.V)
		if old == nil {
			return false
		}
		nv := old.PartialCopy()
		w := Tokens(op.N)
		if w.Cmp(nv.SelfToken) > 0 {
			w = new(big.Int).Set(nv.SelfToken)
		} else {
			remain := new(big.Int).Sub(nv.SelfToken, w)
			if params.YOUToStake(remain).Uint64() < MinSelfStake {
				w.Set(old.SelfToken)
			}
		}
		if m.ContentOnly && w.Cmp(nv.Token) >= 0 {
			return false
		}
		nv.SelfToken.Sub(nv.SelfToken, w)
		newStake := params.YOUToStake(nv.SelfToken)
		delta := new(big.Int).Sub(nv.SelfStake, newStake)
		nv.SelfStake.Set(newStake)
		if nv.IsOnline() && (newStake.Uint64() < MinSelfStake || nv.Stake.Uint64() < MinStake+delta.Uint64()) {
			nv.Status = params.ValidatorOffline
			m.label("status-change")
		}
		nv.Token.Sub(nv.Token, w)
		nv.Stake.Sub(nv.Stake, delta)
		st.UpdateValidator(nv, old)
		m.event("vj", op.V%NVal)
		m.addWithdrawRecord(old.OperatorAddress, common.Address{}, old.Coinbase, nv, w)
		if delta.Sign() != 0 {
			m.label("stake-boundary")
		}
		if nv.Token.Sign() == 0 {
			m.label("validator-emptied")
		}
	case "vstatus": // staking.teChangeStatus
		old := m.val(op.V)
		if old == nil {
			return false
		}
		status := uint8(op.M & 1)
		if status == params.ValidatorOnline && old.Stake.Uint64() < MinStake {
			return false
		}
		changed := status != old.Status
		if op.M&2 == 2 {
			// the in-place calling style (as teDelegationSub's forced-offline step,
			// rewardsToPool, recoverFromExpiredExpelling): edit the stored object, pass a copy as old
			cp := old.PartialCopy()
			old.Status = status
			old.UpdateLastActive(m.Height)
			st.UpdateValidator(old, cp)
			m.label("status-in-place")
		} else {
			nv := old.PartialCopy()
			nv.Status = status
			nv.UpdateLastActive(m.Height)
			st.UpdateValidator(nv, old)
		}
		m.event("vj", op.V%NVal)
		if changed {
			m.label("status-change")
		}
	case "dadd": // staking.teDelegationAdd
		val := m.val(op.V)
		d := Addrs[NAcct+op.D%NDel]
		if val == nil || st.GetNonce(d) == 0 {
			return false // the delegator has sent the delegation transaction: it exists with nonce >= 1
		}
		value := Tokens(op.N)
		if val.Expelled || val.AcceptDelegation == params.NotAcceptDelegation {
			st.AddBalance(d, value)
			return true
		}
		total := new(big.Int).Add(val.Token, value)
		if params.YOUToStake(total).Uint64() > MaxStake {
			st.AddBalance(d, value)
			return true
		}
		if aliasing(val, d) {
			if m.Excl[ClsDlgAlias] && len(m.Live) > 0 {
				m.label("excl:" + ClsDlgAlias)
				return false
			}
			m.event("alias", op.V%NVal)
		}
		st.UpdateDelegation(d, val, value)
		m.event("vj", op.V%NVal)
		m.label("delegation")
	case "dsub": // staking.teDelegationSub (YouV5) + addWithdrawLog
		val := m.val(op.V)
		d := Addrs[NAcct+op.D%NDel]
		if val == nil || st.GetNonce(d) == 0 {
			return false // the delegator has sent the delegation transaction: it exists with nonce >= 1
		}
		dfrom := val.GetDelegationFrom(d)
		if dfrom == nil {
			return false // production only logs the failure
		}
		w := Tokens(op.N)
		if w.Cmp(dfrom.Token) > 0 {
			w = new(big.Int).Set(dfrom.Token)
		}
		if w.Sign() <= 0 {
			return false
		}
		remain := new(big.Int).Sub(dfrom.Token, w)
		if remain.Sign() > 0 && remain.Cmp(Tokens(MinDlgQuarter)) < 0 {
			w.Add(w, remain)
			remain = new(big.Int)
		}
		if m.ContentOnly && w.Cmp(val.Token) >= 0 {
			return false
		}
		// does the caller go on to force the validator offline (in place)?
		stakeAfter := new(big.Int).Sub(val.Stake, new(big.Int).Sub(dfrom.Stake, params.YOUToStake(remain)))
		forced := val.IsOnline() && stakeAfter.Uint64() < MinStake
		if len(m.Live) > 0 {
			if m.Excl[ClsDlgAlias] { // an existing delegation is rewritten: always aliasing
				m.label("excl:" + ClsDlgAlias)
				return false
			}
			if forced && m.Excl[ClsInplaceStatus] {
				m.label("excl:" + ClsInplaceStatus)
				return false
			}
		}
		m.event("alias", op.V%NVal)
		newVal, _, _, _ := st.UpdateDelegation(d, val, new(big.Int).Neg(w))
		m.event("vj", op.V%NVal)
		if newVal.IsOnline() && newVal.Stake.Uint64() < MinStake {
			old := newVal.PartialCopy()
			newVal.Status = params.ValidatorOffline // force to offline, on the stored object
			st.UpdateValidator(newVal, old)
			m.event("inplace", op.V%NVal)
			m.label("forced-offline")
			m.label("status-change")
		}
		m.addWithdrawRecord(d, d, d, newVal, w)
		m.label("delegation")
	case "vreward":
		val := m.val(op.V)
		if val == nil {
			return false
		}
		amt := new(big.Int).SetUint64(op.N)
		if op.M&1 == 0 { // staking.rewardsToPool: the stored object is updated in place
			old := val.PartialCopy()
			val.UpdateLastActive(m.Height)
			val.AddTotalRewards(amt)
			st.UpdateValidator(val, old)
		} else { // staking.distributeRewards
			nv := val.PartialCopy()
			nv.AddTotalRewards(amt)
			st.UpdateValidator(nv, val)
		}
		m.event("vj", op.V%NVal)
	case "vsettle": // staking.settleValidatorRewards
		val := m.val(op.V)
		if val == nil {
			return false
		}
		return m.settle(val)
	case "vexpel": // staking.doPenalize (+ takePenalty for a validator without delegations and open withdrawals)
		val := m.val(op.V)
		if val == nil {
			return false
		}
		penalty := new(big.Int)
		var nv *state.Validator
		total := new(big.Int)
		open := false
		for _, r := range st.GetWithdrawQueue().Records {
			if r.Validator == val.MainAddress() && r.Finished == 0 {
				open = true
			}
		}
		if op.N > 0 && val.Delegations.Len() == 0 && !open && val.Stake.Sign() > 0 {
			penalty.Div(new(big.Int).Mul(val.Token, new(big.Int).SetUint64(op.N)), big.NewInt(100))
		}
		if m.ContentOnly && penalty.Cmp(val.Token) >= 0 {
			penalty.SetUint64(0)
		}
		if penalty.Sign() > 0 {
			// takePenalty: everything falls on the validator itself
			amt := new(big.Int).Set(penalty)
			if val.SelfToken.Cmp(amt) < 0 {
				amt.Set(val.SelfToken)
			}
			nv = val.PartialCopy()
			newToken := new(big.Int).Sub(nv.SelfToken, amt)
			newStake := params.YOUToStake(newToken)
			delta := new(big.Int).Sub(nv.SelfStake, newStake)
			nv.SelfToken.Set(newToken)
			nv.SelfStake.Set(newStake)
			nv.Token.Sub(nv.Token, amt)
			nv.Stake.Sub(nv.Stake, delta)
			total.Set(amt)
		} else {
			nv = val.PartialCopy()
		}
		nv.Status = params.ValidatorOffline
		nv.Expelled = true
		exp := m.Height + 20
		if op.M&1 == 1 {
			exp = m.Height + 10
			nv.LastInactive = m.Height
		}
		if exp > nv.ExpelExpired {
			nv.ExpelExpired = exp
		}
		st.UpdateValidator(nv, val)
		st.AddBalance(PenaltyTo, total)
		m.event("vj", op.V%NVal)
		if val.Status != nv.Status {
			m.label("status-change")
		}
	case "vrecover": // staking.recoverFromExpiredExpelling: in place
		val := m.val(op.V)
		if val == nil || !val.Expelled {
			return false
		}
		old := val.PartialCopy()
		val.Expelled = false
		val.ExpelExpired = 0
		st.UpdateValidator(val, old)
		m.event("vj", op.V%NVal)
	case "wqfinish": // staking.processWithdrawQueue: in place, end of block only
		q := st.GetWithdrawQueue()
		if len(m.Live) > 0 || q.Len() == 0 {
			return false
		}
		r := q.Records[int(op.N)%q.Len()]
		if r.Finished != 0 {
			return false
		}
		r.Finished = 1
		st.AddBalance(r.Recipient, r.FinalBalance)
	case "wqremove": // staking.processWithdrawQueue
		q := st.GetWithdrawQueue()
		var idx []int
		for i := 0; i < q.Len() && i < 8; i++ {
			if bit(op.N, uint(i)) && q.Records[i].Finished == 1 {
				idx = append(idx, i)
			}
		}
		if len(idx) == 0 {
			return false
		}
		if len(m.Live) > 0 && m.Excl[ClsQueueOrder] && !(len(idx) == 1 && idx[0] == q.Len()-1) {
			m.label("excl:" + ClsQueueOrder)
			return false
		}
		if !(len(idx) == 1 && idx[0] == q.Len()-1) {
			m.event("wqremove", -1)
		}
		st.RemoveWithdrawRecords(idx)
		m.event("vj", -1)
		m.label("wqremove")
	case "statreward": // staking.rewardsToPool / distributeRewards: end of block only
		if len(m.Live) > 0 {
			return false
		}
		stat, err := st.GetValidatorsStat()
		if err != nil {
			return false
		}
		amt := new(big.Int).SetUint64(op.N)
		role := params.ValidatorRole(1 + op.M%3)
		switch op.M / 3 {
		case 0:
			stat.GetByRole(role).AddRewards(amt)
		case 1:
			stat.GetByRole(role).ResetRewards(amt)
		default:
			stat.GetByKind(params.KindValidator).SetRewardsResidue(amt)
		}

	// ---- staking trie ----------------------------------------------------------------
	case "srec": // staking handlers: never reverted
		m.Live, m.Events = nil, nil
		d := common.Address{}
		if op.D%(NDel+1) < NDel {
			d = Addrs[NAcct+op.D%(NDel+1)]
		}
		var h common.Hash
		if op.M&1 == 1 {
			h = m.recTx()
		}
		var value *big.Int
		if op.M&2 == 2 {
			value = Tokens(op.N)
		}
		st.AddStakingRecord(d, ValAddr[op.V%NVal], h, value)
		m.UncommittedSrec, m.DirtySrec = true, true
		m.label("staking-record")
	case "prel": // staking.handleDelegationAdd
		if op.D%(NDel+1) == NDel {
			return false
		}
		m.Live, m.Events = nil, nil
		d := Addrs[NAcct+op.D%(NDel+1)]
		if st.PendingRelationshipExist(d, ValAddr[op.V%NVal]) {
			return false
		}
		st.AddPendingRelationship(d, ValAddr[op.V%NVal])
		m.label("staking-record")
	case "sreset": // core.ResetStakingTrieOnNewPeriod: first thing of a block
		if m.SinceBlock != 1 || !m.Committed {
			return false
		}
		st.ResetStakingTrie()
		m.label("staking-reset")
	default:
		panic("statekit: unknown op " + op.K)
	}
	return true
}

// retarget points a validator operation at a validator (or delegation) for which the
// replayed caller's precondition can hold: "an op picks its target by index % len(live)".
// Not in ContentOnly mode, where the target must be known without looking at the state.
func (m *Machine) retarget(op Op) Op {
	if m.ContentOnly {
		return op
	}
	var existing, missing []int
	var pairs [][2]int
	scan := func() {
		for v := 0; v < NVal; v++ {
			val := m.St.GetValidatorByMainAddr(ValAddr[v])
			if val == nil {
				missing = append(missing, v)
				continue
			}
			existing = append(existing, v)
			for d := 0; d < NDel; d++ {
				if val.Delegations.Exist(Addrs[NAcct+d]) {
					pairs = append(pairs, [2]int{v, d})
				}
			}
		}
	}
	defer func() { recover() }() // a corrupted delegation list is reported by the oracle, not here
	switch op.K {
	case "vcreate":
		if scan(); len(missing) > 0 {
			op.V = missing[op.V%NVal%len(missing)]
		}
	case "vupdate", "vdeposit", "vwithdraw", "vstatus", "vreward", "vsettle", "vexpel", "vrecover":
		if scan(); len(existing) > 0 {
			op.V = existing[op.V%NVal%len(existing)]
		}
	case "dsub":
		if scan(); len(pairs) > 0 {
			p := pairs[(op.V%NVal*NDel+op.D%NDel)%len(pairs)]
			op.V, op.D = p[0], p[1]
		}
	case "dadd":
		scan()
		if op.M&1 == 1 && len(pairs) > 0 {
			p := pairs[(op.V%NVal*NDel+op.D%NDel)%len(pairs)]
			op.V, op.D = p[0], p[1]
		} else if len(existing) > 0 {
			op.V = existing[op.V%NVal%len(existing)]
		}
	}
	return op
}

// settle replays staking.settleValidatorRewards.
func (m *Machine) settle(val *state.Validator) bool {
	st := m.St
	v := indexOf4(val.MainAddress())
	if val.Stake.Sign() == 0 && val.RewardsDistributable.Sign() > 0 {
		st.AddBalance(val.Coinbase, val.RewardsDistributable)
		nv := val.PartialCopy()
		nv.RewardsDistributable.SetUint64(0)
		nv.RewardsLastSettled = m.Height
		st.UpdateValidator(nv, val)
		m.event("vj", v)
		return true
	}
	if val.Stake.Sign() == 0 || val.RewardsDistributable.Sign() == 0 {
		return false
	}
	total := new(big.Int).Set(val.RewardsDistributable)
	commission := new(big.Int)
	if val.CommissionRate > 0 {
		commission.Mul(total, big.NewInt(int64(val.CommissionRate)))
		commission.Div(commission, big.NewInt(int64(params.CommissionRateBase)))
		total.Sub(total, commission)
	}
	per, residue := new(big.Int).QuoRem(total, val.Stake, new(big.Int))
	self := new(big.Int).Mul(per, val.SelfStake)
	total.Sub(total, self)
	self.Add(self, commission)
	st.AddBalance(val.Coinbase, self)
	for _, dlg := range val.Delegations {
		r := new(big.Int).Mul(per, dlg.Stake)
		total.Sub(total, r)
		st.AddBalance(dlg.Delegator, r)
	}
	if total.Cmp(residue) != 0 {
		// production: logging.Crit("validator rewards distribution fatal")
		panic(fmt.Sprintf("settleValidatorRewards: residue mismatch (stake %v is not self stake + delegated stakes)", val.Stake))
	}
	if val.IsOffline() {
		st.AddBalance(val.Coinbase, residue)
		residue = new(big.Int)
	}
	nv := val.PartialCopy()
	nv.RewardsDistributable.Set(residue)
	nv.RewardsLastSettled = m.Height
	st.UpdateValidator(nv, val)
	m.event("vj", v)
	return true
}

func indexOf4(a common.Address) int {
	for i := range ValAddr {
		if ValAddr[i] == a {
			return i
		}
	}
	return -1
}
