// Package statekit is the shared machinery of the StateDB checks C08, C09 and C10:
// a fixed small universe of accounts / delegators / validators, a plain-data operation
// language whose validator operations replay - statement by statement - what the
// production callers in /repo/staking do with the StateDB API, an interpreter, and
// the observation function Obs.
package statekit

import (
	"encoding/json"
	"math/big"
	"os"
	"path/filepath"

	"github.com/youchainhq/go-youchain/common"
	"github.com/youchainhq/go-youchain/crypto"
	"github.com/youchainhq/go-youchain/params"
	"verif/kit"
)

const (
	NAcct = 3 // contract-like accounts: every account operation
	NDel  = 3 // externally owned delegator accounts: balance / nonce / delegation operations only
	NAll  = NAcct + NDel
	NVal  = 4
	NSlot = 3
)

// Harness-chosen protocol constants (the production values live in params.YouParams;
// only their role matters here: they decide which branch of a caller is replayed).
const (
	MinStake      = 6  // MinStakes[role]: an online validator below it is forced offline
	MinSelfStake  = 1  // MinSelfStakes[role]
	MaxStake      = 60 // MaxStakes[role]
	MinDlgQuarter = 4  // MinDelegationTokens = 1 YOU = 4 quarter-YOU
	WithdrawDelay = 5
)

var (
	// Quarter is the token granule of the generator: a quarter of the stake unit, so
	// that deposits and withdrawals cross StakeUnit boundaries in both directions.
	Quarter = new(big.Int).Div(params.StakeUint, big.NewInt(4))

	// Addrs[0..NAcct) are contract-like accounts, Addrs[NAcct..NAll) delegator EOAs.
	Addrs [NAll]common.Address

	ValPub  [NVal][]byte
	ValBls  [NVal][]byte
	ValAddr [NVal]common.Address

	PenaltyTo = common.HexToAddress("0x00000000000000000000000000000000000000ee")
	BlockHash = common.HexToHash("0xb10c")
)

func init() {
	Addrs[0] = common.HexToAddress("0x00000000000000000000000000000000000000a0")
	Addrs[1] = common.HexToAddress("0x00000000000000000000000000000000000000a1")
	// the RIPEMD precompile address has a special case in the journal (touch)
	Addrs[2] = common.HexToAddress("0x0000000000000000000000000000000000000003")
	for i := 0; i < NDel; i++ {
		// chosen so that byte order and numeric order of the delegator addresses differ
		// in length of leading zeros: DelegationFroms sorts by Address.Big()
		Addrs[NAcct+i] = common.BytesToAddress([]byte{0xd0, byte(0x30 - 0x10*i), byte(i + 1)})
	}
	for i := 0; i < NVal; i++ {
		seed := make([]byte, 32)
		seed[0], seed[31] = 0x42, byte(i+1)
		k, err := crypto.ToECDSA(seed)
		if err != nil {
			panic(err)
		}
		ValPub[i] = crypto.CompressPubkey(&k.PublicKey)
		ValBls[i] = append([]byte{0xb1, byte(i)}, make([]byte, 46)...)
		ValAddr[i] = crypto.PubkeyToAddress(k.PublicKey)
	}
}

// Tokens converts a number of quarter stake units to LU.
func Tokens(q uint64) *big.Int { return new(big.Int).Mul(Quarter, new(big.Int).SetUint64(q)) }

// ---------------------------------------------------------------------------------
// known findings shared by the three StateDB properties

var myProps = map[string]bool{"C08": true, "C09": true, "C10": true}

var knownClasses map[string]bool

// Excluded reports whether class is a recorded, unrepaired finding of any of the three
// StateDB properties. The three checks share the generator, and a defect of the
// snapshot machinery (recorded under C09) is also in the way of the C08 and C10
// histories, so the exclusion is shared; it is lifted for all three as soon as the
// entry is flipped to "fixed".
func Excluded(class string) bool {
	if knownClasses == nil {
		knownClasses = map[string]bool{}
		b, err := os.ReadFile(filepath.Join(kit.Root(), "known_findings.json"))
		if err == nil {
			var all []struct {
				Property string `json:"property"`
				Status   string `json:"status"`
				Class    string `json:"class"`
			}
			if json.Unmarshal(b, &all) == nil {
				for _, e := range all {
					if myProps[e.Property] && e.Status == "known" {
						knownClasses[e.Class] = true
					}
				}
			}
		}
	}
	return knownClasses[class]
}

// Classes of genuine defects known to the shared generator.
const (
	ClsRevisionList  = "val-revision-list"
	ClsDlgAlias      = "delegation-alias"
	ClsInplaceStatus = "inplace-status-stat-drift"
	ClsQueueOrder    = "withdraw-remove-revert-order"
	ClsCopyDlgs      = "copy-loses-delegations"
	ClsIndexReload   = "index-reload-drops-unflushed"
	ClsCopyRecKeys   = "copy-loses-record-keys"
	ClsCopyDirtyMark = "copy-drops-dirty-mark"
	ClsResurrect     = "deleted-account-balance-resurrected"
)

var allClasses = []string{ClsRevisionList, ClsDlgAlias, ClsInplaceStatus, ClsQueueOrder, ClsCopyDlgs, ClsIndexReload, ClsCopyRecKeys, ClsCopyDirtyMark, ClsResurrect}

// CurrentExclusions lists the classes the generator must exclude by construction.
func CurrentExclusions() []string {
	var out []string
	for _, c := range allClasses {
		if Excluded(c) {
			out = append(out, c)
		}
	}
	return out
}
