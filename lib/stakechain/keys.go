// Package stakechain is the shared staking-chain harness of the checks C05, C06 and C07
// (and the chain-level part of C08): deterministic identities, scaled protocol
// parameters, a two-node network (block builder + block importer) around the real
// core.BlockChain / staking module / miner worker, the transaction alphabet, the vote
// and evidence corpus, and the state observation used by the oracles.
package stakechain

import (
	"crypto/ecdsa"
	"encoding/binary"
	"fmt"
	"math/big"
	"sync"

	"github.com/youchainhq/go-youchain/bls"
	"github.com/youchainhq/go-youchain/common"
	"github.com/youchainhq/go-youchain/crypto"
)

// Sizes of the fixed identity pools. Everything is derived from constants so that a
// Case (plain indices) means the same thing in every process.
const (
	NVal   = 8 // validator identities
	NDeleg = 5 // delegator accounts
	NPlain = 2 // plain accounts
)

// Account index space (all accounts have a key and can send transactions):
//
//	[0, NVal)                         operator account of validator identity i
//	[NVal, NVal+NDeleg)               delegators
//	[.., +NPlain)                     plain accounts
//	[.., +NVal)                       reward coinbase account of validator identity i (starts empty)
//	[.., +NVal)                       the account whose address IS the main address of identity i
const (
	AcctOp     = 0
	AcctDeleg  = AcctOp + NVal
	AcctPlain  = AcctDeleg + NDeleg
	AcctCB     = AcctPlain + NPlain
	AcctMain   = AcctCB + NVal
	NAcct      = AcctMain + NVal
	NSenders   = AcctCB // accounts that are funded at genesis and used as ordinary senders
	masterSeed = "verif-master"
)

// Account is a keyed account.
type Account struct {
	Key  *ecdsa.PrivateKey
	Addr common.Address
}

// ValIdentity is the key material of one validator identity.
type ValIdentity struct {
	MainKey  *ecdsa.PrivateKey
	MainPub  []byte // compressed, 33 bytes
	MainAddr common.Address
	BlsSK    bls.SecretKey
	BlsPub   []byte
}

var (
	Accounts  [NAcct]Account
	Vals      [NVal]ValIdentity
	Master    Account
	blsMgr    = bls.NewBlsManager()
	sigMu     sync.Mutex
	sigCache  = map[string][]byte{}
	acctIndex = map[common.Address]int{}
)

func detKey(label string, i int) *ecdsa.PrivateKey {
	for salt := 0; ; salt++ {
		d := crypto.Keccak256([]byte(fmt.Sprintf("%s-%d-%d", label, i, salt)))
		k, err := crypto.ToECDSA(d)
		if err == nil {
			return k
		}
	}
}

func init() {
	for i := 0; i < NVal; i++ {
		mk := detKey("verif-main", i)
		v := ValIdentity{MainKey: mk, MainPub: crypto.CompressPubkey(&mk.PublicKey), MainAddr: crypto.PubkeyToAddress(mk.PublicKey)}
		// BLS secret: 32 bytes with a zero top byte so that it is below the group order.
		seed := crypto.Keccak256([]byte(fmt.Sprintf("verif-bls-%d", i)))
		seed[0] = 0
		sk, err := blsMgr.DecSecretKey(seed)
		if err != nil {
			panic("stakechain: bls secret: " + err.Error())
		}
		pk, err := sk.PubKey()
		if err != nil {
			panic("stakechain: bls public: " + err.Error())
		}
		cp := pk.Compress()
		v.BlsSK, v.BlsPub = sk, cp.Bytes()
		Vals[i] = v
	}
	for i := 0; i < NAcct; i++ {
		var k *ecdsa.PrivateKey
		if i >= AcctMain {
			k = Vals[i-AcctMain].MainKey
		} else {
			k = detKey("verif-acct", i)
		}
		Accounts[i] = Account{Key: k, Addr: crypto.PubkeyToAddress(k.PublicKey)}
		acctIndex[Accounts[i].Addr] = i
	}
	mk := detKey(masterSeed, 0)
	Master = Account{Key: mk, Addr: crypto.PubkeyToAddress(mk.PublicKey)}
}

// AccountIndex returns the index of a known account address, or -1.
func AccountIndex(a common.Address) int {
	if i, ok := acctIndex[a]; ok {
		return i
	}
	return -1
}

// ValIndexByMain returns the identity index of a main address, or -1.
func ValIndexByMain(a common.Address) int {
	for i := range Vals {
		if Vals[i].MainAddr == a {
			return i
		}
	}
	return -1
}

// VotePayload is the byte string a ucon voter signs for a vote: blockHash || round || roundIndex
// (consensus/ucon/voter.go signVote: no vote kind in the payload).
func VotePayload(hash common.Hash, round uint64, index uint32) []byte {
	var buf [4]byte
	binary.BigEndian.PutUint32(buf[:], index)
	p := append([]byte{}, hash.Bytes()...)
	p = append(p, new(big.Int).SetUint64(round).Bytes()...)
	return append(p, buf[:]...)
}

// SignVote returns identity v's BLS signature over the vote payload. BLS signing is
// deterministic, so results are memoised process-wide (a pure cache).
func SignVote(v int, hash common.Hash, round uint64, index uint32) []byte {
	payload := VotePayload(hash, round, index)
	key := fmt.Sprintf("%d:%x", v, payload)
	sigMu.Lock()
	if s, ok := sigCache[key]; ok {
		sigMu.Unlock()
		return append([]byte(nil), s...)
	}
	sigMu.Unlock()
	cs := Vals[v].BlsSK.Sign(payload).Compress()
	s := cs.Bytes()
	sigMu.Lock()
	if len(sigCache) > 200000 {
		sigCache = map[string][]byte{}
	}
	sigCache[key] = append([]byte(nil), s...)
	sigMu.Unlock()
	return s
}

// HashN is a small deterministic pool of block hashes votes are cast for.
func HashN(n int) common.Hash {
	return crypto.Keccak256Hash([]byte(fmt.Sprintf("verif-block-%d", n)))
}
