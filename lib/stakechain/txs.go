package stakechain

import (
	"math"
	"math/big"

	"github.com/youchainhq/go-youchain/common"
	"github.com/youchainhq/go-youchain/core"
	"github.com/youchainhq/go-youchain/core/state"
	"github.com/youchainhq/go-youchain/core/types"
	"github.com/youchainhq/go-youchain/crypto"
	"github.com/youchainhq/go-youchain/params"
	"github.com/youchainhq/go-youchain/rlp"
	"github.com/youchainhq/go-youchain/staking"
)

// Op is one transaction of the alphabet, as plain data. Every selector is reduced
// modulo the size of the live set it selects from when the op is interpreted, so any
// Op value is meaningful in any state (and every case replays from JSON).
type Op struct {
	K  string `json:"k"`            // kind, see OpKinds
	A  int    `json:"a,omitempty"`  // sender selector
	V  int    `json:"v,omitempty"`  // validator selector: >=0 existing validator V%len; <0 identity (-V-1)%NVal
	M  int    `json:"m,omitempty"`  // amount mode
	N  int    `json:"n,omitempty"`  // amount parameter
	X  int    `json:"x,omitempty"`  // extra selector (recipient, status, role, flags ...)
	Y  int    `json:"y,omitempty"`  // second extra selector (rates ...)
	P  int    `json:"p,omitempty"`  // gas price mode
	G  int    `json:"g,omitempty"`  // gas limit mode
	NO int    `json:"no,omitempty"` // nonce offset (0 correct, +1 gap, -1 replayed)
}

// OpKinds lists the alphabet.
var OpKinds = []string{"xfer", "deploy", "call", "vcreate", "vupdate", "vdeposit", "vwithdraw", "vstatus", "vsettle",
	"dadd", "dsub", "dsettle", "raw"}

// Contract templates (runtime code). All are payable.
//
//	0 sink      CALLVALUE PUSH1 0 SSTORE STOP                         keeps what it receives
//	1 reverter  PUSH1 0 PUSH1 0 REVERT                                 always reverts
//	2 suicide   CALLER SELFDESTRUCT                                    pays its whole balance to the caller
//	3 invalid   INVALID                                                burns all gas
//	4 forward   CALL(gas, calldata[0:32], callvalue, 0,0,0,0) STOP     forwards the value; keeps it if the inner call fails
//	5 fwdrevert CALL(...) then REVERT                                  inner frame (possibly failing) inside a failing outer frame
//	6 probe     t = calldata[0:32]: SSTORE(1, EXTCODESIZE t) SSTORE(2, EXTCODEHASH t) SSTORE(3, BALANCE t)
//	            EXTCODECOPY(t, 0, 0, 32) LOG1(0, 32, t) CALL(gas, t, callvalue, 0,0,0,0) STOP
//	            (inspects an arbitrary address the way Solidity helpers do, sets / overwrites / clears storage, logs, pays the target)
//	7 probe0    the same without the three SSTOREs (cannot earn a storage refund)
//	8 factory   CREATE(callvalue, initcode of a sink) STOP           creates a child contract holding the value
//
// SELFDESTRUCT to the contract itself (an EVM-defined burn) is deliberately not in the
// alphabet: it destroys value by the definition of the opcode.
var contractRuntime = [][]byte{
	{0x34, 0x60, 0x00, 0x55, 0x00},
	{0x60, 0x00, 0x60, 0x00, 0xfd},
	{0x33, 0xff},
	{0xfe},
	{0x60, 0x00, 0x60, 0x00, 0x60, 0x00, 0x60, 0x00, 0x34, 0x60, 0x00, 0x35, 0x5a, 0xf1, 0x00},
	{0x60, 0x00, 0x60, 0x00, 0x60, 0x00, 0x60, 0x00, 0x34, 0x60, 0x00, 0x35, 0x5a, 0xf1, 0x60, 0x00, 0x60, 0x00, 0xfd},
	probeRuntime(true),
	probeRuntime(false),
	factoryRuntime(),
}

func probeRuntime(store bool) []byte {
	c := []byte{0x60, 0x00, 0x35} // PUSH1 0 CALLDATALOAD -> [t]
	for i, op := range []byte{0x3b, 0x3f, 0x31} { // EXTCODESIZE, EXTCODEHASH, BALANCE
		c = append(c, 0x80, op) // DUP1 <op> -> [t, v]
		if store {
			c = append(c, 0x60, byte(i+1), 0x55) // PUSH1 slot SSTORE
		} else {
			c = append(c, 0x50) // POP
		}
	}
	c = append(c, 0x60, 0x20, 0x60, 0x00, 0x60, 0x00, 0x83, 0x3c) // PUSH1 32 PUSH1 0 PUSH1 0 DUP4 EXTCODECOPY
	c = append(c, 0x80, 0x60, 0x20, 0x60, 0x00, 0xa1)             // DUP1 PUSH1 32 PUSH1 0 LOG1
	c = append(c, 0x60, 0x00, 0x60, 0x00, 0x60, 0x00, 0x60, 0x00, 0x34, 0x85, 0x5a, 0xf1, 0x50, 0x00) // CALL(gas, t, callvalue, 0,0,0,0) POP STOP
	return c
}

func factoryRuntime() []byte {
	child := initCode0()
	c := append([]byte{0x60 + byte(len(child)) - 1}, child...) // PUSHn <initcode>
	c = append(c, 0x60, 0x00, 0x52)                            // PUSH1 0 MSTORE (right-aligned in word 0)
	c = append(c, 0x60, byte(len(child)), 0x60, byte(32-len(child)), 0x34, 0xf0, 0x50, 0x00) // PUSH1 size PUSH1 offset CALLVALUE CREATE POP STOP
	return c
}

// initCode0 is the creation code of the sink template (kept separate: contractRuntime is still being initialised).
func initCode0() []byte {
	rt := []byte{0x34, 0x60, 0x00, 0x55, 0x00}
	return append([]byte{0x60, byte(len(rt)), 0x80, 0x60, 0x0b, 0x60, 0x00, 0x39, 0x60, 0x00, 0xf3}, rt...)
}

// KindProbe / KindProbeNoStore / KindFactory are the indices of the inspecting templates.
const (
	KindProbe        = 6
	KindProbeNoStore = 7
	KindFactory      = 8
)

// ByKind added to a call op's X selects the first deployed contract of kind X-ByKind (the op is skipped if there is none).
const ByKind = 1000

// NContractKinds is the number of contract templates.
var NContractKinds = len(contractRuntime)

// KindFwdRevert is the template whose calls revert an outer frame after an inner frame.
const KindFwdRevert = 5

func initCode(kind int) []byte {
	rt := contractRuntime[kind]
	// PUSH1 len DUP1 PUSH1 0x0b PUSH1 0 CODECOPY PUSH1 0 RETURN
	code := []byte{0x60, byte(len(rt)), 0x80, 0x60, 0x0b, 0x60, 0x00, 0x39, 0x60, 0x00, 0xf3}
	return append(code, rt...)
}

var rateTable = []uint16{0, 1, 100, 5000, 9999, 10000}

// TxMeta describes a generated transaction for the oracles.
type TxMeta struct {
	Op       Op
	Kind     string
	Sender   common.Address
	Staking  bool
	Action   staking.ActionType
	Detain   *big.Int       // payload value that is detained until the period end if the tx succeeds
	Target   common.Address // validator main address for staking txs
	Deploy   bool
	CKind    int
	Contract common.Address
	Skip     bool             // precondition of the op not met: no transaction generated
	Touches  []common.Address // addresses an EVM transaction may move value to (recipient, forwarding target)
}

// World is the interpreter state of one case.
type World struct {
	Net       *Net
	Contracts []common.Address
	CKinds    []int
	yp        params.YouParams
	future    map[common.Address][]uint64 // accused -> rounds of posted evidences that mature later
	// NoRefund: exclusion of the recorded finding refund-minted (gas refunds are paid to the
	// sender but still counted in GasRewards): no transaction that can earn an EVM gas refund
	// is generated - the self-destructing template is replaced by the sink, and contracts
	// are only called with a non-zero value (the sink never clears its storage slot).
	NoRefund bool
	// NoEmpty: exclusion of the recorded finding deleted-validator-dust (a validator whose
	// Token reaches 0 is deleted together with the undistributed remainder of its rewards):
	// a validator without delegations never withdraws below max(MinSelfStake, 1 unit), and
	// only once per period (a second withdrawal could force the full withdrawal).
	NoEmpty bool
	// NoNegRec: exclusion of the recorded finding negative-pending-record (a self-withdrawal
	// stores the remaining SELF tokens in the validator's pending record, a later delegation
	// unbind of the same period subtracts from it as if it were the TOTAL: the record goes
	// negative, cannot be encoded, and every pending transaction of the period is dropped):
	// no unbind from a validator that has a self-withdrawal pending in the same period.
	NoNegRec bool
	// Builder, if set, replaces Node.Build for blocks it accepts (C06: the real miner worker).
	Builder   func(cb common.Address, txs []*types.Transaction, opt BuildOpts) (*Built, error)
	period    uint64
	withdrawn map[common.Address]bool
	selfWithdrawn map[common.Address]bool // validators with a vwithdraw op issued in the current period
	Excluded  map[string]int
}

func NewWorld(net *Net) *World {
	return &World{Net: net, yp: Params(), future: map[common.Address][]uint64{}, Excluded: map[string]int{}, withdrawn: map[common.Address]bool{}, selfWithdrawn: map[common.Address]bool{}}
}

func unit(n int64) *big.Int { return new(big.Int).Mul(big.NewInt(n), params.StakeUint) }

func mod(a, n int) int {
	if n <= 0 {
		return 0
	}
	return ((a % n) + n) % n
}

// pickVal resolves a validator selector against the current validator list.
// It returns the main address, the identity index (or -1) and the record (or nil).
func pickVal(sel int, vals []*state.Validator) (common.Address, int, *state.Validator) {
	if sel >= 0 && len(vals) > 0 {
		v := vals[sel%len(vals)]
		return v.MainAddress(), ValIndexByMain(v.MainAddress()), v
	}
	id := mod(-sel-1, NVal)
	if sel >= 0 {
		id = mod(sel, NVal)
	}
	main := Vals[id].MainAddr
	for _, v := range vals {
		if v.MainAddress() == main {
			return main, id, v
		}
	}
	return main, id, nil
}

func (w *World) gasPrice(op Op, sender int) *big.Int {
	// distinct price per sender (the pool's price heap then orders the block's
	// transactions as a function of the case, not of map iteration order)
	var glu int64
	switch mod(op.P, 8) {
	case 7:
		glu = 30000
	case 6:
		glu = 2000
	default:
		glu = 100 + int64(mod(op.P, 8))*64
	}
	p := new(big.Int).Mul(big.NewInt(glu), big.NewInt(params.GLu))
	return p.Add(p, big.NewInt(int64(sender+1)))
}

func stakingIntrinsic(data []byte) uint64 {
	g, _ := core.IntrinsicGas(params.TxValidatorGas, data)
	return g
}

// gasLimit returns the gas limit for a tx whose intrinsic cost is `intr` and which
// needs `extra` execution gas.
func gasLimit(op Op, intr, extra uint64, blockGasLimit uint64) uint64 {
	switch mod(op.G, 16) {
	case 12:
		return blockGasLimit / 10 * 9 // nearly a whole block (a failing staking tx burns all of it)
	case 9:
		return intr // exactly intrinsic
	case 10:
		if intr > 0 {
			return intr - 1 // below intrinsic: refused
		}
		return 0
	case 11:
		return blockGasLimit + 1 // above the block gas limit
	case 8:
		if extra > 1 {
			return intr + extra - 1 // one short of what execution needs
		}
		return intr
	default:
		return intr + extra + 20000
	}
}

func (w *World) sign(tx *types.Transaction, key int) *types.Transaction {
	signed, err := types.SignTx(tx, types.MakeSigner(nil), Accounts[key].Key)
	if err != nil {
		panic("stakechain: sign: " + err.Error())
	}
	return signed
}

func masterSign(msg staking.Msg) []byte {
	s, err := staking.MakeSign(msg, Master.Key)
	if err != nil {
		panic("stakechain: master sign: " + err.Error())
	}
	return s
}

func encodeStaking(action staking.ActionType, payload interface{}) []byte {
	bs, err := rlp.EncodeToBytes(payload)
	if err != nil {
		panic("stakechain: encode payload: " + err.Error())
	}
	out, err := rlp.EncodeToBytes(&staking.Message{Action: action, Payload: bs})
	if err != nil {
		panic("stakechain: encode message: " + err.Error())
	}
	return out
}

// operatorOf returns the account index that currently operates the validator (or -1).
func operatorOf(v *state.Validator) int { return AccountIndex(v.OperatorAddress) }

// MakeTx interprets one op against the state `st` (the builder's head state).
// nonces tracks how many transactions of each sender were already generated for the block.
func (w *World) MakeTx(op Op, st *state.StateDB, vals []*state.Validator, nonces map[int]uint64, blockGasLimit uint64) (*types.Transaction, *TxMeta) {
	meta := &TxMeta{Op: op, Kind: op.K}
	yp := &w.yp
	nonceOf := func(acct int) uint64 {
		n := st.GetNonce(Accounts[acct].Addr) + nonces[acct]
		switch {
		case op.NO > 0:
			n += uint64(op.NO)
		case op.NO < 0 && n >= uint64(-op.NO):
			n -= uint64(-op.NO)
		}
		return n
	}
	finish := func(acct int, to *common.Address, value *big.Int, gas uint64, data []byte) (*types.Transaction, *TxMeta) {
		price := w.gasPrice(op, acct)
		nonce := nonceOf(acct)
		var tx *types.Transaction
		if to == nil {
			tx = types.NewContractCreation(nonce, value, gas, price, data)
		} else {
			tx = types.NewTransaction(nonce, *to, value, gas, price, data)
		}
		if op.NO == 0 {
			nonces[acct]++
		}
		meta.Sender = Accounts[acct].Addr
		return w.sign(tx, acct), meta
	}
	skip := func() (*types.Transaction, *TxMeta) { meta.Skip = true; return nil, meta }
	stakingTx := func(acct int, action staking.ActionType, payload interface{}, extra uint64, txValue *big.Int) (*types.Transaction, *TxMeta) {
		data := encodeStaking(action, payload)
		meta.Staking, meta.Action = true, action
		to := params.StakingModuleAddress
		if txValue == nil {
			txValue = new(big.Int)
		}
		return finish(acct, &to, txValue, gasLimit(op, stakingIntrinsic(data), extra, blockGasLimit), data)
	}
	balance := func(acct int) *big.Int { return st.GetBalance(Accounts[acct].Addr) }
	needSig := func(role params.ValidatorRole) bool { return yp.SignatureRequired[role] }

	switch op.K {
	case "xfer":
		from := mod(op.A, NAcct)
		var to common.Address
		gas := uint64(21000)
		switch x := mod(op.X, NAcct+12); {
		case x < NAcct:
			to = Accounts[x].Addr
		case x == NAcct:
			to = params.StakingModuleAddress // routed to the staking converter: undecodable (empty) message
			gas = stakingIntrinsic(nil)
		case x == NAcct+1:
			to = yp.RewardsPoolAddress
		case x == NAcct+2:
			to = yp.PenaltyTo
		case x < NAcct+8:
			if len(w.Contracts) == 0 {
				to = Accounts[mod(op.N, NAcct)].Addr
			} else {
				to = w.Contracts[mod(x, len(w.Contracts))]
				gas = 90000
			}
		default:
			to = common.BigToAddress(big.NewInt(int64(0xfe0000 + mod(op.N, 6)))) // fresh accounts
		}
		bal := balance(from)
		price := w.gasPrice(op, from)
		var amt *big.Int
		switch mod(op.M, 8) {
		case 1:
			amt = new(big.Int).Set(bal) // everything: cannot also pay the gas
		case 2:
			gl := gasLimit(op, gas, 0, blockGasLimit)
			fee := new(big.Int).Mul(price, new(big.Int).SetUint64(gl))
			amt = new(big.Int).Sub(bal, fee) // drains the account exactly when gas used == gas limit
			if amt.Sign() < 0 {
				amt = new(big.Int)
			}
		case 3:
			amt = new(big.Int)
		case 4:
			amt = big.NewInt(1)
		case 5:
			amt = new(big.Int).Add(bal, big.NewInt(1))
		default:
			amt = new(big.Int).Mul(big.NewInt(int64(mod(op.N, 400))), big.NewInt(37e16))
		}
		meta.Touches = []common.Address{to}
		if w.NoRefund && amt.Sign() == 0 && gas == 90000 {
			amt = big.NewInt(1)
			w.Excluded["excluded:refund-minted"]++
		}
		return finish(from, &to, amt, gasLimit(op, gas, 0, blockGasLimit), nil)

	case "deploy":
		from := mod(op.A, NSenders)
		kind := mod(op.X, NContractKinds)
		if w.NoRefund && (kind == 2 || kind == KindProbe) {
			if kind == 2 {
				kind = 0
			} else {
				kind = KindProbeNoStore
			}
			w.Excluded["excluded:refund-minted"]++
		}
		code := initCode(kind)
		intr, _ := core.IntrinsicGas(params.TxGasContractCreation, code)
		val := new(big.Int)
		if mod(op.M, 3) == 1 {
			val = new(big.Int).Mul(big.NewInt(int64(mod(op.N, 50))), big.NewInt(1e17))
		}
		meta.Deploy, meta.CKind = true, kind
		meta.Contract = crypto.CreateAddress(Accounts[from].Addr, nonceOf(from))
		return finish(from, nil, val, gasLimit(op, intr, 60000, blockGasLimit), code)

	case "call":
		if len(w.Contracts) == 0 {
			return skip()
		}
		from := mod(op.A, NSenders)
		ci := mod(op.X, len(w.Contracts))
		if op.X >= ByKind {
			ci = -1
			for i, k := range w.CKinds {
				if k == op.X-ByKind || (op.X-ByKind == KindProbe && k == KindProbeNoStore) {
					ci = i
					break
				}
			}
			if ci < 0 {
				return skip()
			}
		}
		to := w.Contracts[ci]
		meta.CKind, meta.Contract = w.CKinds[ci], to
		// calldata: one word, the forwarding / inspected target
		var target common.Address
		switch y := mod(op.Y, NAcct+4+len(w.Contracts)+3); {
		case y >= NAcct+4+len(w.Contracts):
			target = common.BigToAddress(big.NewInt(int64(0xab0000 + y))) // absent from the state
		case y < NAcct:
			target = Accounts[y].Addr
		case y == NAcct:
			target = params.StakingModuleAddress
		case y == NAcct+1:
			target = yp.RewardsPoolAddress
		case y == NAcct+2:
			target = yp.PenaltyTo
		case y == NAcct+3:
			target = to
		default:
			target = w.Contracts[y-NAcct-4]
		}
		data := common.LeftPadBytes(target.Bytes(), 32)
		meta.Touches = []common.Address{to, target}
		intr, _ := core.IntrinsicGas(params.TxGas, data)
		val := new(big.Int)
		if mod(op.M, 3) != 0 {
			val = new(big.Int).Mul(big.NewInt(int64(1+mod(op.N, 80))), big.NewInt(1e17))
		} else if w.NoRefund {
			val = big.NewInt(1e17)
			w.Excluded["excluded:refund-minted"]++
		}
		return finish(from, &to, val, gasLimit(op, intr, 220000, blockGasLimit), data)

	case "vcreate":
		// identity: first non-existing from the selector on, unless flagged "existing"
		id := mod(op.V, NVal)
		if op.X&1 == 0 {
			found := false
			for k := 0; k < NVal; k++ {
				cand := mod(id+k, NVal)
				if st.GetValidatorByMainAddr(Vals[cand].MainAddr) == nil {
					id, found = cand, true
					break
				}
			}
			if !found {
				return skip()
			}
		}
		role := params.ValidatorRole(1 + mod(op.X>>1, 3))
		if op.X&(1<<6) != 0 && op.X&(1<<7) != 0 {
			role = params.ValidatorRole(4 + mod(op.X>>8, 3)) // unknown role
		}
		ri := mod(int(role)-1, 3)
		sender := AcctOp + id
		if op.A > 0 {
			sender = mod(op.A-1, NSenders)
		}
		minSelf, minStake, max := yp.MinSelfStakes[params.ValidatorRole(ri+1)], yp.MinStakes[params.ValidatorRole(ri+1)], yp.MaxStakes[params.ValidatorRole(ri+1)]
		var val *big.Int
		switch mod(op.M, 8) {
		case 1:
			val = unit(int64(minSelf))
			if minSelf == 0 {
				val = big.NewInt(5e17) // token below one stake unit: stake 0
			}
		case 2:
			val = new(big.Int).Sub(unit(int64(minSelf)), big.NewInt(1))
			if minSelf == 0 {
				val = big.NewInt(1)
			}
		case 3:
			val = unit(int64(max))
		case 4:
			val = unit(int64(max) + 1)
		case 5:
			val = new(big.Int).Add(balance(sender), big.NewInt(1))
		case 6:
			val = new(big.Int).Add(unit(int64(minStake)+int64(mod(op.N, 40))), big.NewInt(5e17))
		default:
			val = unit(int64(minStake) + int64(mod(op.N, 60)))
		}
		tx := &staking.TxCreateValidator{
			Name:             "n" + string(rune('a'+mod(op.N, 26))),
			OperatorAddress:  Accounts[AcctOp+id].Addr,
			Coinbase:         Accounts[AcctCB+id].Addr,
			MainPubKey:       Vals[id].MainPub,
			BlsPubKey:        Vals[id].BlsPub,
			Value:            val,
			CommissionRate:   rateTable[mod(op.Y, 6)],
			RiskObligation:   rateTable[mod(op.Y/6, 6)],
			AcceptDelegation: uint16(mod(op.Y/36, 2)),
			Role:             role,
		}
		if mod(op.Y/72, 9) == 8 {
			tx.CommissionRate = 10001 // PreCheck refuses
		}
		tx.Nonce = nonceOf(sender)
		if params.CheckRole(role) && needSig(role) && op.X&(1<<6) == 0 {
			tx.Sign = masterSign(tx)
		}
		meta.Detain = new(big.Int).Set(val)
		meta.Target = Vals[id].MainAddr
		return stakingTx(sender, staking.ValidatorCreate, tx, params.TxValCreationGas, nil)

	case "vupdate", "vdeposit", "vwithdraw", "vstatus", "vsettle":
		main, _, v := pickVal(op.V, vals)
		meta.Target = main
		sender := -1
		if v != nil {
			sender = operatorOf(v)
		}
		if op.A > 0 || sender < 0 {
			sender = mod(op.A-1, NSenders) // not (necessarily) the operator
		}
		role := params.RoleHouse
		token, selfToken := new(big.Int), new(big.Int)
		if v != nil {
			role, token, selfToken = v.Role, v.Token, v.SelfToken
		}
		sig := needSig(role) && op.X&(1<<6) == 0
		switch op.K {
		case "vupdate":
			tx := &staking.TxUpdateValidator{MainAddress: main, CommissionRate: math.MaxUint16, RiskObligation: math.MaxUint16, AcceptDelegation: math.MaxUint16}
			if op.X&1 != 0 {
				tx.AcceptDelegation = uint16(mod(op.Y/36, 2))
			}
			if op.X&2 != 0 {
				tx.CommissionRate = rateTable[mod(op.Y, 6)]
			}
			if op.X&4 != 0 {
				tx.RiskObligation = rateTable[mod(op.Y/6, 6)]
			}
			if op.X&8 != 0 {
				tx.Coinbase = Accounts[mod(op.N, NAcct)].Addr
			}
			if op.X&16 != 0 {
				tx.OperatorAddress = Accounts[mod(op.N, NSenders)].Addr
			}
			if op.X&32 != 0 {
				tx.Name = "u" + string(rune('a'+mod(op.N, 26)))
			}
			if mod(op.Y/72, 9) == 8 {
				tx.RiskObligation = 10001
			}
			tx.Nonce = nonceOf(sender)
			if sig {
				tx.Sign = masterSign(tx)
			}
			return stakingTx(sender, staking.ValidatorUpdate, tx, 0, nil)
		case "vdeposit":
			max := yp.MaxStakes[role]
			var val *big.Int
			switch mod(op.M, 8) {
			case 1: // up to the maximum exactly
				val = new(big.Int).Sub(unit(int64(max)), token)
				if val.Sign() <= 0 {
					val = unit(1)
				}
			case 2: // one unit beyond the maximum
				val = new(big.Int).Sub(unit(int64(max)+1), token)
				if val.Sign() <= 0 {
					val = unit(1)
				}
			case 3:
				val = big.NewInt(5e17)
			case 4:
				val = new(big.Int).Add(balance(sender), big.NewInt(1))
			case 5:
				val = new(big.Int)
			default:
				val = unit(int64(1 + mod(op.N, 300)))
			}
			tx := &staking.TxValidatorDeposit{MainAddress: main, Value: val}
			tx.Nonce = nonceOf(sender)
			if sig {
				tx.Sign = masterSign(tx)
			}
			meta.Detain = new(big.Int).Set(val)
			return stakingTx(sender, staking.ValidatorDeposit, tx, 0, nil)
		case "vwithdraw":
			minSelf := unit(int64(yp.MinSelfStakes[role]))
			var val *big.Int
			switch mod(op.M, 16) {
			case 8: // leave max(MinSelfStake, 10 + N%20 units)
				keep := unit(int64(10 + mod(op.N, 20)))
				if keep.Cmp(minSelf) < 0 {
					keep = new(big.Int).Set(minSelf)
				}
				val = new(big.Int).Sub(selfToken, keep)
			case 1:
				val = new(big.Int).Set(selfToken)
			case 2:
				val = new(big.Int).Add(selfToken, big.NewInt(1))
			case 3: // leave exactly the minimum self stake
				val = new(big.Int).Sub(selfToken, minSelf)
			case 4: // leave one LU less than the minimum: forced full withdraw (V5)
				val = new(big.Int).Add(new(big.Int).Sub(selfToken, minSelf), big.NewInt(1))
			case 5:
				val = big.NewInt(5e17)
			case 6:
				val = new(big.Int)
			case 7: // everything the pending record of this period allows (it tracks TOTAL tokens once a deposit or delegation is pending)
				val = st.GetStakingRecordValue(common.Address{}, main)
				if val.Sign() == 0 {
					val = new(big.Int).Set(selfToken)
				}
			default:
				val = unit(int64(1 + mod(op.N, 300)))
			}
			if val.Sign() < 0 {
				val = unit(1)
			}
			if w.NoEmpty && v != nil && len(v.Delegations) == 0 && st.ValidatorPendingCount(main) == 0 {
				// (with delegations - existing or pending in this period - the record keeps tokens)
				floor := new(big.Int).Set(minSelf)
				if floor.Cmp(unit(1)) < 0 {
					floor = unit(1)
				}
				room := new(big.Int).Sub(selfToken, floor)
				if pend := st.GetStakingRecordValue(common.Address{}, main); pend.Sign() > 0 || w.withdrawn[main] || room.Sign() <= 0 {
					w.Excluded["excluded:deleted-validator-dust"]++
					return skip()
				}
				if val.Cmp(room) > 0 {
					val = room
					w.Excluded["excluded:deleted-validator-dust"]++
				}
				w.withdrawn[main] = true
			}
			w.selfWithdrawn[main] = true
			rcpt := Accounts[mod(op.X&63, NAcct)].Addr
			if mod(op.X&63, NAcct+2) == NAcct {
				rcpt = common.Address{} // refused by PreCheck
			}
			tx := &staking.TxValidatorWithdraw{MainAddress: main, Recipient: rcpt, Value: val}
			tx.Nonce = nonceOf(sender)
			if sig {
				tx.Sign = masterSign(tx)
			}
			return stakingTx(sender, staking.ValidatorWithDraw, tx, 0, nil)
		case "vstatus":
			status := uint8(mod(op.X&63, 5))
			if status > 2 {
				status = uint8(mod(int(status), 2))
			}
			if v != nil && op.Y&1 == 0 && status < 2 {
				status = 1 - v.Status // an actual change
			}
			tx := &staking.TxValidatorChangeStatus{MainAddress: main, Status: status}
			tx.Nonce = nonceOf(sender)
			if sig {
				tx.Sign = masterSign(tx)
			}
			return stakingTx(sender, staking.ValidatorChangeStatus, tx, 0, nil)
		default:
			return stakingTx(sender, staking.ValidatorSettle, &staking.TxValidatorSettle{MainAddress: main}, 0, nil)
		}

	case "dadd", "dsub", "dsettle":
		main, id, v := pickVal(op.V, vals)
		meta.Target = main
		sender := AcctDeleg + mod(op.A, NDeleg)
		if op.A >= NDeleg*3 {
			if id >= 0 && op.A%2 == 0 {
				sender = AcctMain + id // the validator's own main address: self delegation
			} else {
				sender = mod(op.A, NSenders)
			}
		}
		min := yp.MinDelegationTokens
		var cur *big.Int = new(big.Int)
		token := new(big.Int)
		role := params.RoleHouse
		if v != nil {
			if d := v.GetDelegationFrom(Accounts[sender].Addr); d != nil {
				cur = d.Token
			}
			token, role = v.Token, v.Role
		}
		switch op.K {
		case "dadd":
			max := yp.MaxStakes[role]
			var val *big.Int
			switch mod(op.M, 8) {
			case 1:
				val = new(big.Int).Sub(min, big.NewInt(1))
			case 2:
				val = new(big.Int).Sub(unit(int64(max)), token)
				if val.Cmp(min) < 0 {
					val = new(big.Int).Set(min)
				}
			case 3:
				val = new(big.Int).Sub(unit(int64(max)+1), token)
				if val.Cmp(min) < 0 {
					val = new(big.Int).Set(min)
				}
			case 4:
				val = new(big.Int).Add(balance(sender), big.NewInt(1))
			case 5:
				val = new(big.Int).Add(min, big.NewInt(5e17))
			case 6:
				val = new(big.Int).Set(min)
			case 7: // more than the validator's own stake (but within its maximum)
				self := new(big.Int)
				if v != nil {
					self = v.SelfToken
				}
				val = new(big.Int).Add(self, unit(int64(1+mod(op.N, 50))))
				if room := new(big.Int).Sub(unit(int64(max)), token); max > 0 && val.Cmp(room) > 0 {
					val = room
				}
				if val.Cmp(min) < 0 {
					val = new(big.Int).Set(min)
				}
			default:
				val = new(big.Int).Add(min, unit(int64(mod(op.N, 200))))
			}
			if val.Sign() <= 0 {
				val = big.NewInt(1)
			}
			meta.Detain = new(big.Int).Set(val)
			var txv *big.Int
			if op.X&1 != 0 {
				txv = big.NewInt(12345) // a tx value on a staking tx is ignored (not moved)
			}
			return stakingTx(sender, staking.DelegationAdd, &staking.TxDelegation{Validator: main, Value: val}, 0, txv)
		case "dsub":
			if w.NoNegRec && w.selfWithdrawn[main] {
				w.Excluded["excluded:negative-pending-record"]++
				return skip()
			}
			if w.NoEmpty && v != nil && v.SelfToken.Sign() == 0 {
				// the last delegator leaving a validator without own tokens would delete it
				w.Excluded["excluded:deleted-validator-dust"]++
				return skip()
			}
			var val *big.Int
			switch mod(op.M, 8) {
			case 1:
				val = new(big.Int).Set(cur)
			case 2:
				val = new(big.Int).Add(cur, big.NewInt(1))
			case 3: // leave one LU less than the minimum delegation: forced full unbind
				val = new(big.Int).Add(new(big.Int).Sub(cur, min), big.NewInt(1))
			case 4: // leave exactly the minimum
				val = new(big.Int).Sub(cur, min)
			case 5:
				val = big.NewInt(5e17)
			default:
				val = unit(int64(1 + mod(op.N, 100)))
			}
			if val.Sign() <= 0 {
				val = unit(1)
			}
			return stakingTx(sender, staking.DelegationSub, &staking.TxDelegation{Validator: main, Value: val}, 0, nil)
		default:
			return stakingTx(sender, staking.DelegationSettle, &staking.TxDelegationSettle{Validator: main}, 0, nil)
		}

	case "raw":
		sender := mod(op.A, NSenders)
		to := params.StakingModuleAddress
		var data []byte
		var val = new(big.Int)
		meta.Staking = true
		switch mod(op.X, 7) {
		case 0:
			data = []byte{0xde, 0xad, 0xbe, 0xef, byte(op.N)}
		case 1:
			data, _ = rlp.EncodeToBytes(&staking.Message{Action: staking.ActionType(0x7f), Payload: nil})
		case 2:
			full := encodeStaking(staking.DelegationAdd, &staking.TxDelegation{Validator: Vals[mod(op.V, NVal)].MainAddr, Value: unit(50)})
			var m staking.Message
			_ = rlp.DecodeBytes(full, &m)
			m.Payload = m.Payload[:len(m.Payload)/2]
			data, _ = rlp.EncodeToBytes(&m)
		case 3:
			data = nil
			val = unit(int64(mod(op.N, 5)))
		case 4:
			data, _ = rlp.EncodeToBytes(&staking.Message{Action: staking.ValidatorCreate, Payload: []byte{0xc0}})
		case 5:
			data, _ = rlp.EncodeToBytes(&staking.Message{Action: staking.ValidatorDeposit, Payload: []byte{0xc3, 0x01, 0x02, 0x03}})
		default:
			data, _ = rlp.EncodeToBytes(&staking.Message{Action: staking.ActionType(0), Payload: []byte{1, 2, 3}})
		}
		extra := uint64(0)
		if mod(op.X, 7) == 4 {
			extra = params.TxValCreationGas
		}
		return finish(sender, &to, val, gasLimit(op, stakingIntrinsic(data), extra, blockGasLimit), data)
	}
	return skip()
}

// NoteReceipts records the contracts created by the block's successful deploy transactions.
func (w *World) NoteReceipts(b *Built, metas map[common.Hash]*TxMeta) {
	for i, tx := range b.Included {
		m := metas[tx.Hash()]
		if m == nil || !m.Deploy || i >= len(b.Receipts) {
			continue
		}
		if b.Receipts[i].Status == types.ReceiptStatusSuccessful && len(w.Contracts) < 12 {
			w.Contracts = append(w.Contracts, m.Contract)
			w.CKinds = append(w.CKinds, m.CKind)
		}
	}
}
