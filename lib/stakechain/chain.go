package stakechain

import (
	"errors"
	"fmt"
	"math/big"
	"runtime"
	"sync"
	"time"

	"github.com/youchainhq/go-youchain/common"
	"github.com/youchainhq/go-youchain/consensus/solo"
	"github.com/youchainhq/go-youchain/core"
	"github.com/youchainhq/go-youchain/core/state"
	"github.com/youchainhq/go-youchain/core/types"
	"github.com/youchainhq/go-youchain/event"
	"github.com/youchainhq/go-youchain/local"
	"github.com/youchainhq/go-youchain/params"
	"github.com/youchainhq/go-youchain/rlp"
	"github.com/youchainhq/go-youchain/staking"
	"github.com/youchainhq/go-youchain/youdb"
)

// GenesisTime is far in the future, so that the real worker (which stamps
// time.Now() unless the parent is not older) always chooses parent.Time+1: block
// times are a pure function of the height.
const GenesisTime uint64 = 4102444800 // 2100-01-01

// Engine is the solo engine with a settable coinbase: solo.GetValMainAddress returns
// the zero address, which is not a validator (rewardsToPool would Crit); the real ucon
// engine returns the node's validator main address, which is what this wrapper does.
type Engine struct {
	*solo.Solo
	mu       sync.Mutex
	coinbase common.Address
}

func NewEngine() *Engine {
	s := solo.NewSolo()
	s.Update(true, 0, 1) // sealer
	return &Engine{Solo: s}
}

func (e *Engine) SetCoinbase(a common.Address) {
	e.mu.Lock()
	e.coinbase = a
	e.mu.Unlock()
}

func (e *Engine) GetValMainAddress() common.Address {
	e.mu.Lock()
	defer e.mu.Unlock()
	return e.coinbase
}

// GenVal is one genesis validator (plain data).
type GenVal struct {
	ID      int    `json:"id"`            // identity index
	Role    uint8  `json:"role"`          // 1 chancellor, 2 senator, 3 house
	YOU     int64  `json:"you"`           // whole tokens
	Sub     uint64 `json:"sub,omitempty"` // extra sub-unit part in 1e15 LU steps (0..999)
	Offline bool   `json:"offline,omitempty"`
}

// Token returns the genesis token amount in LU.
func (g GenVal) Token() *big.Int {
	t := You(g.YOU)
	if g.Sub > 0 {
		t.Add(t, new(big.Int).Mul(big.NewInt(int64(g.Sub%1000)), big.NewInt(1e15)))
	}
	return t
}

// SenderFunds is the genesis balance of every ordinary sender account.
var SenderFunds = You(20000)

// MainFunds is the genesis balance of the accounts that coincide with validator main addresses.
var MainFunds = You(60)

// MakeGenesis builds the genesis specification of a case.
func MakeGenesis(cfg *Config, vals []GenVal) *core.Genesis {
	alloc := core.GenesisAlloc{}
	for i := 0; i < NSenders; i++ {
		alloc[Accounts[i].Addr] = core.GenesisAccount{Balance: new(big.Int).Set(SenderFunds)}
	}
	for i := AcctMain; i < NAcct; i++ {
		alloc[Accounts[i].Addr] = core.GenesisAccount{Balance: new(big.Int).Set(MainFunds)}
	}
	yp := Params()
	alloc[yp.RewardsPoolAddress] = core.GenesisAccount{Balance: You(cfg.PoolYOU)}
	gvs := core.GenesisValidators{}
	for _, v := range vals {
		id := ((v.ID % NVal) + NVal) % NVal
		status := params.ValidatorOnline
		if v.Offline {
			status = params.ValidatorOffline
		}
		gvs[Vals[id].MainAddr] = core.GenesisValidator{
			Name:            fmt.Sprintf("v%d", id),
			OperatorAddress: Accounts[AcctOp+id].Addr,
			Coinbase:        Accounts[AcctCB+id].Addr,
			MainPubKey:      Vals[id].MainPub,
			BlsPubKey:       Vals[id].BlsPub,
			Token:           v.Token(),
			Role:            params.ValidatorRole(v.Role),
			Status:          status,
		}
	}
	return &core.Genesis{
		NetworkId:   params.NetworkIdForTestCase,
		Timestamp:   GenesisTime,
		GasLimit:    params.GenesisGasLimit,
		Alloc:       alloc,
		Validators:  gvs,
		CurrVersion: params.YouV5,
	}
}

// Node is one chain node: database, event mux, engine, real BlockChain with the real
// staking module registered on its processor.
//
// The block builder is BuildMirror, a line-by-line mirror of miner/worker.go
// (commitNewWork, commitTransactions, commitTransaction, commit, postSeal) made of the
// same exported calls. The real miner.worker cannot be used: package miner imports
// node -> p2p -> quic-go, whose init() panics under the installed Go toolchain
// ("qtls.ConnectionState not compatible with tls.ConnectionState"), so no test binary
// that links package miner can start.
type Node struct {
	DB   *youdb.MemDatabase
	Mux  *event.TypeMux
	Eng  *Engine
	BC   *core.BlockChain
	Stk  *staking.Staking
	dead bool
}

var poolConfig = core.TxPoolConfig{
	NoLocals: true, Journal: "", Rejournal: time.Hour, PriceLimit: 1, PriceBump: 10,
	AccountSlots: 64, GlobalSlots: 4096, AccountQueue: 256, GlobalQueue: 1024, Lifetime: 3 * time.Hour,
}

// ErrInfra marks harness/infrastructure trouble (never a verdict).
var ErrInfra = errors.New("stakechain: infrastructure")

func NewNode(g *core.Genesis, builder bool) (*Node, error) {
	n := &Node{DB: youdb.NewMemDatabase(), Mux: event.NewMux(), Eng: NewEngine()}
	if _, err := g.Commit(n.DB); err != nil {
		return nil, err
	}
	bc, err := core.NewBlockChain(n.DB, n.Eng, n.Mux, params.ArchiveNode, local.FakeDetailDB())
	if err != nil {
		return nil, err
	}
	n.BC = bc
	n.Stk = staking.NewStaking(n.Mux)
	n.Stk.Register(bc.Processor())
	if err := n.Stk.Start(bc, n.Eng); err != nil {
		return nil, err
	}
	if builder {
		// The module subscribes to the mux inside its own goroutine; wait until an
		// (ignored-type) evidence posted on the mux shows up in its pool. This is the
		// same event production posts for inactive validators; it is dropped by the next
		// slashing() call without any effect on the block.
		deadline := time.Now().Add(5 * time.Second)
		for n.Stk.VerifPendingEvidences() == 0 {
			_ = n.Mux.Post(staking.NewEvidence(staking.EvidenceInactive{Round: 0}))
			for i := 0; i < 50 && n.Stk.VerifPendingEvidences() == 0; i++ {
				time.Sleep(20 * time.Microsecond)
			}
			if time.Now().After(deadline) {
				return nil, fmt.Errorf("%w: staking module never subscribed", ErrInfra)
			}
		}
	}
	return n, nil
}

// Stop terminates everything the node started; bounded, because a panic inside
// InsertChain leaves the chain's wait group un-done (BlockChain.Stop would block).
func (n *Node) Stop() {
	if n == nil || n.dead {
		return
	}
	n.dead = true
	done := make(chan struct{})
	go func() {
		defer close(done)
		defer func() { recover() }()
		if n.Stk != nil {
			n.Stk.Stop()
		}
		if n.BC != nil {
			n.BC.Stop()
		}
		n.Mux.Stop()
	}()
	select {
	case <-done:
	case <-time.After(3 * time.Second):
	}
}

// Head returns the current head block.
func (n *Node) Head() *types.Block { return n.BC.CurrentBlock() }

// State opens a fresh StateDB at the head.
func (n *Node) State() (*state.StateDB, error) { return n.BC.State() }

// StateOf opens a fresh StateDB at the given block.
func (n *Node) StateOf(b *types.Block) (*state.StateDB, error) {
	return n.BC.StateAt(b.Root(), b.ValRoot(), b.StakingRoot())
}

// PostEvidence posts an evidence on the builder's mux (the path the honest detector
// uses) and waits, bounded, until the module's pool has grown.
func (n *Node) PostEvidence(ev staking.Evidence) error {
	before := n.Stk.VerifPendingEvidences()
	if err := n.Mux.Post(ev); err != nil {
		return fmt.Errorf("%w: %v", ErrInfra, err)
	}
	deadline := time.Now().Add(5 * time.Second)
	for n.Stk.VerifPendingEvidences() <= before {
		if time.Now().After(deadline) {
			return fmt.Errorf("%w: evidence did not reach the pool", ErrInfra)
		}
		runtime.Gosched()
		time.Sleep(10 * time.Microsecond)
	}
	return nil
}

// Built is the outcome of building one block.
type Built struct {
	Block    *types.Block
	Receipts []*types.Receipt // transaction receipts followed by the end-block receipt(s)
	Included []*types.Transaction
	// Rejected maps the hash of a submitted transaction that is not in the block to the
	// reason: refused by the pool, not executable (still queued), or refused by ApplyTransaction.
	Rejected map[common.Hash]string
}

// BuildOpts steers the mirroring builder.
type BuildOpts struct {
	// UsePool: the transactions go through a fresh REAL core.TxPool on the current head
	// (AddRemotesSync), and the block is filled from pool.Pending() in price/nonce order
	// exactly as commitTransactions does. Otherwise the transactions are tried in the
	// given order (the pool is bypassed, so transactions a pool would refuse reach
	// ApplyTransaction and exercise its error paths and the snapshot/revert).
	UsePool bool
	// SlashData, if non-nil, is put into the header by an adversarial proposer and
	// EndBlock is run in replay mode (isSeal=false), so that the block's roots are
	// consistent with what every validating node computes from that SlashData.
	SlashData []byte
	Replay    bool
	// DryRun: assemble the block but do not seal/write it and post nothing (used to compare
	// the mirror with the real worker on the same parent). Must not be used while the
	// module's evidence pool is non-empty (slashing() would consume it).
	DryRun bool
}

// Build mirrors miner/worker.go commitNewWork + commitTransactions + commitTransaction +
// commit + postSeal line by line with exported calls.
func (n *Node) Build(coinbase common.Address, txs []*types.Transaction, opt BuildOpts) (*Built, error) {
	n.Eng.SetCoinbase(coinbase)
	bc := n.BC
	// -- commitNewWork
	parent := bc.CurrentBlock()
	num := new(big.Int).Add(parent.Number(), common.Big1())
	header := &types.Header{
		ParentHash: parent.Hash(),
		Number:     num,
		Time:       parent.Time() + 1, // what the worker picks when the local clock is behind the parent
		Coinbase:   coinbase,
		GasLimit:   core.CalcGasLimit(parent),
		GasRewards: big.NewInt(0),
		Subsidy:    big.NewInt(0),
	}
	if err := core.ProcessYouVersionState(parent.Header(), header); err != nil {
		return nil, err
	}
	if err := n.Eng.Prepare(bc, header); err != nil {
		return nil, err
	}
	// -- makeCurrent
	yp, err := bc.VersionForRound(num.Uint64())
	if err != nil {
		return nil, err
	}
	sroot := core.StakingRootForNewBlock(yp.StakingTrieFrequency, parent.Header())
	st, err := bc.StateAt(parent.Root(), parent.ValRoot(), sroot)
	if err != nil {
		return nil, err
	}
	signer := types.MakeSigner(header.Number)
	st.IntermediateRoot(true)

	out := &Built{Rejected: map[common.Hash]string{}}
	// -- commitTransactions
	gp := new(core.GasPool).AddGas(header.GasLimit)
	vmCfg, err := core.PrepareVMConfig(bc, num.Uint64(), *bc.GetVMConfig())
	if err != nil {
		return nil, err
	}
	proc := bc.Processor()
	var (
		receipts []*types.Receipt
		tcount   int
	)
	commitTransaction := func(tx *types.Transaction) error {
		snap := st.Snapshot()
		receipt, _, err := proc.ApplyTransaction(tx, signer, st, bc, header, &coinbase, &header.GasUsed, header.GasRewards, gp, vmCfg, local.FakeRecorder())
		if err != nil {
			st.RevertToSnapshot(snap)
			return err
		}
		out.Included = append(out.Included, tx)
		receipts = append(receipts, receipt)
		return nil
	}
	if opt.UsePool {
		pool := core.NewTxPool(poolConfig, bc)
		var pending map[common.Address]types.Transactions
		func() {
			defer pool.Stop()
			if len(txs) > 0 {
				for i, e := range pool.AddRemotesSync(txs) {
					if e != nil {
						out.Rejected[txs[i].Hash()] = "pool: " + e.Error()
					}
				}
			}
			pending, _ = pool.Pending()
		}()
		txset := types.NewTransactionsByPriceAndNonce(signer, pending)
		for {
			if gp.Gas() < params.TxGas {
				break
			}
			tx := txset.Peek()
			if tx == nil {
				break
			}
			st.Prepare(tx.Hash(), common.Hash{}, tcount)
			err := commitTransaction(tx)
			switch err {
			case core.ErrGasLimitReached:
				txset.Pop()
			case core.ErrNonceTooLow:
				txset.Shift()
			case core.ErrNonceTooHigh:
				txset.Pop()
			case nil:
				tcount++
				txset.Shift()
			default:
				txset.Shift()
			}
			if err != nil {
				out.Rejected[tx.Hash()] = "apply: " + err.Error()
			}
		}
	} else {
		for _, tx := range txs {
			if gp.Gas() < params.TxGas {
				break
			}
			st.Prepare(tx.Hash(), common.Hash{}, tcount)
			if err := commitTransaction(tx); err != nil {
				out.Rejected[tx.Hash()] = "apply: " + err.Error()
				continue
			}
			tcount++
		}
	}
	inBlock := map[common.Hash]bool{}
	for _, tx := range out.Included {
		inBlock[tx.Hash()] = true
	}
	for _, tx := range txs {
		if h := tx.Hash(); !inBlock[h] && out.Rejected[h] == "" {
			out.Rejected[h] = "not executable"
		}
	}
	// -- commitNewWork, continued
	if opt.SlashData != nil {
		header.SlashData = opt.SlashData
	}
	res, _, _ := proc.EndBlock(bc, header, out.Included, st, !opt.Replay, local.FakeRecorder())
	for _, r := range res {
		if r != nil {
			receipts = append(receipts, r)
		}
	}
	// -- commit
	block, err := n.Eng.FinalizeAndAssemble(bc, header, st, out.Included, receipts)
	if err != nil {
		return nil, err
	}
	if opt.DryRun {
		out.Block, out.Receipts = block, receipts
		return out, nil
	}
	// -- mine + postSeal
	block, err = n.Eng.Seal(bc, block, nil)
	if err != nil || block == nil {
		return nil, fmt.Errorf("seal: %v", err)
	}
	hash := block.Hash()
	var logs []*types.Log
	stored := make([]*types.Receipt, len(receipts))
	for i, r := range receipts {
		r.BlockHash = hash
		r.BlockNumber = block.Number()
		r.TransactionIndex = uint(i)
		cp := *r
		stored[i] = &cp
		for _, l := range r.Logs {
			l.BlockHash = hash
		}
		logs = append(logs, r.Logs...)
	}
	if err := bc.WriteBlockWithState(block, st, stored); err != nil {
		return nil, err
	}
	che := core.ChainHeadEvent{Block: block}
	bc.PostChainEvents([]interface{}{che, core.NewMinedBlockEvent{Block: block}, core.ChainEvent{Block: block, Hash: hash, Logs: logs}}, logs)
	if n.Head().Hash() != hash {
		return nil, fmt.Errorf("built block %d is not the builder's head", block.NumberU64())
	}
	out.Block, out.Receipts = block, receipts
	return out, nil
}

// WireCopy re-creates a block from its RLP encoding, as a block arrives from the
// network: no cached senders, no shared header or transaction objects.
func WireCopy(b *types.Block) (*types.Block, error) {
	enc, err := rlp.EncodeToBytes(b)
	if err != nil {
		return nil, err
	}
	var out types.Block
	if err := rlp.DecodeBytes(enc, &out); err != nil {
		return nil, err
	}
	return &out, nil
}

// Import inserts a wire copy of the block into the node's chain (the block-import path).
func (n *Node) Import(b *types.Block) error {
	cp, err := WireCopy(b)
	if err != nil {
		return fmt.Errorf("wire copy: %v", err)
	}
	if cp.Hash() != b.Hash() {
		return fmt.Errorf("wire copy changes the block hash")
	}
	if err := n.BC.InsertChain(types.Blocks{cp}); err != nil {
		return err
	}
	if h := n.Head(); h.Hash() != b.Hash() {
		return fmt.Errorf("importer head is #%d %x after importing #%d %x", h.NumberU64(), h.Hash().Bytes()[:4], b.NumberU64(), b.Hash().Bytes()[:4])
	}
	return nil
}

// Net is a builder node A and an importer node B on the same genesis.
type Net struct {
	Cfg      *Config
	A, B     *Node
	baseline int
}

// NewNet creates both nodes. The caller must Close the net.
func NewNet(cfgIdx int, vals []GenVal) (*Net, error) {
	cfg := Install(cfgIdx)
	net := &Net{Cfg: cfg, baseline: runtime.NumGoroutine()}
	g := MakeGenesis(cfg, vals)
	a, err := NewNode(g, true)
	if err != nil {
		net.Close()
		return nil, err
	}
	net.A = a
	b, err := NewNode(MakeGenesis(cfg, vals), false)
	if err != nil {
		net.Close()
		return nil, err
	}
	net.B = b
	if a.Head().Hash() != b.Head().Hash() {
		net.Close()
		return nil, errors.New("genesis hashes differ between nodes")
	}
	return net, nil
}

// Close stops both nodes and waits (bounded) until the goroutines they started are gone.
func (n *Net) Close() {
	n.A.Stop()
	n.B.Stop()
	deadline := time.Now().Add(2 * time.Second)
	for runtime.NumGoroutine() > n.baseline && time.Now().Before(deadline) {
		time.Sleep(50 * time.Microsecond)
	}
}
