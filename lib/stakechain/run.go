package stakechain

import (
	"fmt"
	"sort"

	"github.com/youchainhq/go-youchain/common"
	"github.com/youchainhq/go-youchain/core/state"
	"github.com/youchainhq/go-youchain/core/types"
	"github.com/youchainhq/go-youchain/params"
	"github.com/youchainhq/go-youchain/staking"
)

// BlockSpec is one block of a case as plain data.
type BlockSpec struct {
	CB   int      `json:"cb"`             // proposer selector among the eligible chamber validators
	Pool bool     `json:"pool,omitempty"` // transactions go through the real TxPool (price/nonce order)
	Ops  []Op     `json:"ops,omitempty"`
	Ev   []EvSpec `json:"ev,omitempty"` // evidences reaching the builder before it builds this block
}

// Excl lists the by-construction exclusions of recorded (unrepaired) findings. They are
// decided by the generator (kit.IsKnown) and stored in the case, so a replay file runs
// exactly as generated.
type Excl struct {
	AutoSettle bool `json:"auto_settle,omitempty"` // keep online house validators out of forced settlement (C07 stale-val-forced-settle)
	ZeroStake  bool `json:"zero_stake,omitempty"`  // no evidence against a validator with Stake == 0 < Token (zero-stake-division)
	ZeroToken  bool `json:"zero_token,omitempty"`  // no evidence whose penalty amount is 0 (zero-penalty-divergence)
	NoRefund   bool `json:"no_refund,omitempty"`   // no transaction that can earn an EVM gas refund (C07 refund-minted)
	NoEmpty    bool `json:"no_empty,omitempty"`    // no withdrawal that empties (and thereby deletes) a validator (C07 deleted-validator-dust)
	NoNegRec   bool `json:"no_neg_rec,omitempty"`  // no delegation unbind after a self-withdrawal of the same validator in one period (C07 negative-pending-record)
}

// StepResult is the outcome of building one block on A (not yet imported on B).
type StepResult struct {
	Parent    *types.Block
	Built     *Built
	Metas     map[common.Hash]*TxMeta
	Submitted []*types.Transaction
	Evidences []*EvInfo // posted on the mux or placed by the adversarial proposer
	AdvSlash  bool
	Halted    bool // no eligible proposer: the chain cannot grow
	Injected  int  // settle transactions injected by the AutoSettle exclusion
	Skipped   []string
	PeriodEnd bool
}

// SortedVals returns the builder's current validators sorted by main address.
func SortedVals(st *state.StateDB) []*state.Validator {
	vals := st.GetValidatorsForUpdate()
	out := make([]*state.Validator, len(vals))
	copy(out, vals)
	sort.Slice(out, func(i, j int) bool {
		a, b := out[i].MainAddress(), out[j].MainAddress()
		return string(a[:]) < string(b[:])
	})
	return out
}

// EligibleProposers returns the main addresses that can author block `num`: chamber
// validators that are online in the stake look-back state of that round (what
// sortition reads) and still exist in the current state, sorted by address. (A validator
// whose record was deleted after a full withdrawal is still in the look-back set for
// StakeLookBack rounds, but its own node cannot build a block: rewardsToPool ends in
// logging.Crit "proposer not in the current validators set".)
func (w *World) EligibleProposers(num uint64, st *state.StateDB) []common.Address {
	set := w.lookBackSet(num, false)
	if set == nil {
		return nil
	}
	var out []common.Address
	for _, v := range set.List() {
		if v.Role != params.RoleHouse && v.IsOnline() && v.Stake.Sign() > 0 && st.GetValidatorByMainAddr(v.MainAddress()) != nil {
			out = append(out, v.MainAddress())
		}
	}
	sort.Slice(out, func(i, j int) bool { return string(out[i][:]) < string(out[j][:]) })
	return out
}

// IsPeriodEnd reports whether block num closes a staking period.
func (w *World) IsPeriodEnd(num uint64) bool { return (num+1)%w.yp.StakingTrieFrequency == 0 }

// Step interprets one block spec on the builder node.
func (w *World) Step(bs BlockSpec, ex Excl) (*StepResult, error) {
	a := w.Net.A
	parent := a.Head()
	num := parent.NumberU64() + 1
	res := &StepResult{Parent: parent, Metas: map[common.Hash]*TxMeta{}, PeriodEnd: w.IsPeriodEnd(num)}
	w.NoRefund = ex.NoRefund
	st, err := a.State()
	if err != nil {
		return nil, err
	}
	elig := w.EligibleProposers(num, st)
	if len(elig) == 0 {
		res.Halted = true
		return res, nil
	}
	cb := elig[mod(bs.CB, len(elig))]
	w.NoEmpty = ex.NoEmpty
	w.NoNegRec = ex.NoNegRec
	if period := num / w.yp.StakingTrieFrequency; period != w.period {
		w.period, w.withdrawn, w.selfWithdrawn = period, map[common.Address]bool{}, map[common.Address]bool{}
	}
	vals := SortedVals(st)
	// A network without online stake is dead (no sortition weight at all); the end-block
	// code divides by the number of roles with online validators and by the online
	// stake. Such states are outside the domain of the chain properties: stop the chain.
	// survivors: online validators with stake that are not accused by a still-pending
	// (future-round) evidence posted earlier which matures in this or a later block.
	survivors := map[common.Address]bool{}
	for _, v := range vals {
		if v.IsOnline() && v.Stake.Sign() > 0 {
			survivors[v.MainAddress()] = true
		}
	}
	for a, rounds := range w.future {
		keep := rounds[:0]
		for _, r := range rounds {
			if r >= parent.NumberU64() {
				keep = append(keep, r)
			}
		}
		if len(keep) == 0 {
			delete(w.future, a)
			continue
		}
		w.future[a] = keep
		delete(survivors, a)
	}
	if res.PeriodEnd {
		// inactivity slashing at this period end (before the rewards are distributed) takes
		// every online chamber validator offline that has not proposed for more than
		// InactivityPenaltyWaitRounds. The proposer of this block is marked active by
		// rewardsToPool - but only if the block has rewards at all (rewardsToPool returns
		// before UpdateLastActive when gas rewards + residue + subsidy is 0), which is
		// certain only while the rewards pool account is not empty.
		proposerMarked := st.GetBalance(w.yp.RewardsPoolAddress).Sign() > 0
		for _, v := range vals {
			if v.Role != params.RoleHouse && v.IsOnline() && !(proposerMarked && v.MainAddress() == cb) && num-v.LastActive() > w.yp.InactivityPenaltyWaitRounds {
				delete(survivors, v.MainAddress())
			}
		}
	}
	if len(survivors) == 0 {
		res.Halted = true
		return res, nil
	}
	gasLimit := parent.GasLimit()
	nonces := map[int]uint64{}
	var txs []*types.Transaction
	for _, op := range bs.Ops {
		tx, meta := w.MakeTx(op, st, vals, nonces, gasLimit)
		if tx == nil {
			res.Skipped = append(res.Skipped, op.K)
			continue
		}
		res.Metas[tx.Hash()] = meta
		txs = append(txs, tx)
	}
	// Exclusion of the recorded finding stale-val-forced-settle: an online house
	// validator that would be force-settled at the NEXT period end gets an ordinary
	// ValidatorSettle transaction from its operator in the last block of this period, so
	// that the regular (correct) settlement of processPendingTxs runs first.
	if ex.AutoSettle && res.PeriodEnd {
		gap := w.yp.MaxRewardsPeriod * w.yp.StakingTrieFrequency
		for _, v := range vals {
			if v.Role != params.RoleHouse || !v.IsOnline() {
				continue
			}
			if v.RewardsLastSettled+gap > num+w.yp.StakingTrieFrequency {
				continue
			}
			opAcct := operatorOf(v)
			if opAcct < 0 {
				continue
			}
			idx := -1
			for i, x := range vals {
				if x == v {
					idx = i
				}
			}
			tx, meta := w.MakeTx(Op{K: "vsettle", V: idx, P: 5}, st, vals, nonces, gasLimit)
			if tx != nil {
				meta.Kind = "auto-settle"
				res.Metas[tx.Hash()] = meta
				txs = append(txs, tx)
				res.Injected++
			}
		}
	}
	res.Submitted = txs
	// evidences
	var adv []staking.Evidence
	for _, es := range bs.Ev {
		info := w.BuildEvidence(es, vals)
		effective := info.PassesGate && (info.RightHeight || (!es.Adv && info.Round > parent.NumberU64()))
		if effective {
			if acc := st.GetValidatorByMainAddr(info.Accused); acc != nil {
				if survivors[info.Accused] {
					// never slash the last online validator with stake (see above)
					if len(survivors) <= 1 {
						res.Skipped = append(res.Skipped, "skipped:last-online-validator")
						continue
					}
					delete(survivors, info.Accused)
				}
				if ex.ZeroStake && acc.Stake.Sign() == 0 && PenaltyAmount(acc.Token).Sign() > 0 {
					res.Skipped = append(res.Skipped, "excluded:zero-stake-division")
					continue
				}
				if ex.ZeroToken && PenaltyAmount(acc.Token).Sign() == 0 {
					res.Skipped = append(res.Skipped, "excluded:zero-penalty-divergence")
					continue
				}
				if !info.RightHeight {
					w.future[info.Accused] = append(w.future[info.Accused], info.Round)
				}
			}
		}
		res.Evidences = append(res.Evidences, info)
		if es.Adv {
			adv = append(adv, info.Ev)
			continue
		}
		if err := a.PostEvidence(info.Ev); err != nil {
			return nil, err
		}
	}
	opt := BuildOpts{UsePool: bs.Pool}
	if len(adv) > 0 {
		opt.SlashData, opt.Replay, res.AdvSlash = EncodeSlashData(adv), true, true
	}
	build := a.Build
	if w.Builder != nil {
		build = w.Builder
	}
	b, err := build(cb, txs, opt)
	if err != nil {
		return nil, fmt.Errorf("build #%d: %v", num, err)
	}
	res.Built = b
	w.NoteReceipts(b, res.Metas)
	return res, nil
}
