package stakechain

import (
	"math/big"
	"sync"

	"github.com/youchainhq/go-youchain/common"
	"github.com/youchainhq/go-youchain/core/state"
	"github.com/youchainhq/go-youchain/youdb"
)

var (
	nestedOnce   sync.Once
	nestedBroken bool
)

// NestedRevertBroken probes, once per process, the state journal defect that belongs to
// property C09 (val-revision-list): after a Finalise, reverting an inner snapshot and
// then the outer one panics ("revision id N cannot be reverted"). On a chain this is hit
// by any transaction - after another one in the same block - in which a failing inner
// call frame sits inside a failing outer frame, on the builder and on every importer.
// That crash is C09's finding, not a conservation / determinism / slashing finding, so
// while the probe still panics the generators of C05-C07 do not deploy the one contract
// template that produces the shape (fwdrevert). Once the journal is repaired the probe
// passes and the template is generated again, with no change to the checks.
func NestedRevertBroken() bool {
	nestedOnce.Do(func() {
		defer func() {
			if r := recover(); r != nil {
				nestedBroken = true
			}
		}()
		st, err := state.New(common.Hash{}, common.Hash{}, common.Hash{}, state.NewDatabase(youdb.NewMemDatabase()))
		if err != nil {
			return
		}
		a := common.BytesToAddress([]byte{0x77})
		st.Snapshot()
		st.AddBalance(a, big.NewInt(1))
		st.Finalise(true)
		outer := st.Snapshot()
		inner := st.Snapshot()
		st.RevertToSnapshot(inner)
		st.RevertToSnapshot(outer)
	})
	return nestedBroken
}

var (
	zeroStakeOnce   sync.Once
	zeroStakeBroken bool
)

// ZeroStakePenaltyPanics probes, once per process, the C05 finding zero-stake-division on a
// scratch network of configuration cfg: a house validator created with half a stake unit
// (Stake 0, Token > 0) enters the look-back set and is then accused by a real
// equivocation. While takePenalty still divides by that zero stake (a crash of the
// builder that belongs to C05) the generators of C06 and C07 keep evidence against such
// validators out; once repaired the shape is generated again.
func ZeroStakePenaltyPanics(cfg int) bool {
	zeroStakeOnce.Do(func() {
		gen := []GenVal{{ID: 0, Role: 1, YOU: 1500}, {ID: 1, Role: 2, YOU: 800}, {ID: 2, Role: 3, YOU: 200}}
		net, err := NewNet(cfg, gen)
		if err != nil {
			zeroStakeBroken = true // cannot probe: stay on the safe side
			return
		}
		defer net.Close()
		w := NewWorld(net)
		defer func() {
			if r := recover(); r != nil {
				zeroStakeBroken = true
			}
		}()
		n := int(net.Cfg.Freq) + 17
		for i := 0; i <= n; i++ {
			bs := BlockSpec{CB: i % 2}
			if i == 0 {
				bs.Pool = true
				bs.Ops = []Op{{K: "vcreate", V: NVal - 1, M: 1, X: 4}}
			}
			if i == n {
				bs.Ev = []EvSpec{{Signer: 100 + NVal - 1, Index: 1, VoteType: KPrecommit, Adv: true,
					Pairs: []PairSpec{{Kind: KPrecommit, Hash: 0}, {Kind: KPrecommit, Hash: 1}}}}
			}
			step, err := w.Step(bs, Excl{})
			if err != nil || step.Halted {
				zeroStakeBroken = true
				return
			}
		}
	})
	return zeroStakeBroken
}
