package stakechain

import (
	"math/big"
	"sync"

	"github.com/youchainhq/go-youchain/common"
	"github.com/youchainhq/go-youchain/core/state"
	"github.com/youchainhq/go-youchain/youdb"
)

var (
	nestedOnce   sync.Once
	nestedBroken bool
)

// NestedRevertBroken probes, once per process, the state journal defect that belongs to
// property C09 (val-revision-list): after a Finalise, reverting an inner snapshot and
// then the outer one panics ("revision id N cannot be reverted"). On a chain this is hit
// by any transaction - after another one in the same block - in which a failing inner
// call frame sits inside a failing outer frame, on the builder and on every importer.
// That crash is C09's finding, not a conservation / determinism / slashing finding, so
// while the probe still panics the generators of C05-C07 do not deploy the one contract
// template that produces the shape (fwdrevert). Once the journal is repaired the probe
// passes and the template is generated again, with no change to the checks.
func NestedRevertBroken() bool {
	nestedOnce.Do(func() {
		defer func() {
			if r := recover(); r != nil {
				nestedBroken = true
			}
		}()
		st, err := state.New(common.Hash{}, common.Hash{}, common.Hash{}, state.NewDatabase(youdb.NewMemDatabase()))
		if err != nil {
			return
		}
		a := common.BytesToAddress([]byte{0x77})
		st.Snapshot()
		st.AddBalance(a, big.NewInt(1))
		st.Finalise(true)
		outer := st.Snapshot()
		inner := st.Snapshot()
		st.RevertToSnapshot(inner)
		st.RevertToSnapshot(outer)
	})
	return nestedBroken
}
