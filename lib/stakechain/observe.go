package stakechain

import (
	"bytes"
	"fmt"
	"math/big"
	"sort"

	"github.com/youchainhq/go-youchain/common"
	"github.com/youchainhq/go-youchain/core/state"
	"github.com/youchainhq/go-youchain/core/types"
	"github.com/youchainhq/go-youchain/params"
	"github.com/youchainhq/go-youchain/rlp"
	"github.com/youchainhq/go-youchain/trie"
)

// Obs is a full observation of the committed state of one block, read by iterating the
// account trie and the validator trie leaf by leaf from the node's database through a
// FRESH state.Database (no cache shared with the chain): the sums do not depend on the
// StateDB's in-memory objects, statistics or indexes.
type Obs struct {
	Number   uint64
	Accounts int
	// sums (LU)
	SumBalances *big.Int // all account balances
	SumToken    *big.Int // validators' Token
	SumWithdraw *big.Int // FinalBalance of unfinished withdraw records
	SumValRD    *big.Int // validators' RewardsDistributable
	SumPools    *big.Int // rewardsDistributable of all stat entries (role pools)
	SumResidue  *big.Int // rewardsResidue of all stat entries (global residue)
	Total       *big.Int // everything above

	Vals      []*state.Validator // sorted by main address
	ValByMain map[common.Address]*state.Validator
	Stat      *state.ValidatorsStat
	Withdraws []*state.WithdrawRecord
	Index     []common.Address
	HasIndex  bool
	// account leaves whose address preimage is known
	Acct map[common.Address]state.Account
}

var (
	flagVal   = []byte("valinfo-")
	flagIndex = []byte("valindex")
	flagStat  = []byte("valstat")
	flagWd    = []byte("valubds")
)

// Observe reads the state committed for header h on node n.
func Observe(n *Node, h *types.Header) (*Obs, error) {
	sdb := state.NewDatabase(n.DB)
	o := &Obs{
		Number:      h.Number.Uint64(),
		SumBalances: new(big.Int), SumToken: new(big.Int), SumWithdraw: new(big.Int), SumValRD: new(big.Int),
		SumPools: new(big.Int), SumResidue: new(big.Int), Total: new(big.Int),
		ValByMain: map[common.Address]*state.Validator{}, Acct: map[common.Address]state.Account{},
	}
	at, err := sdb.OpenTrie(h.Root)
	if err != nil {
		return nil, fmt.Errorf("open account trie: %v", err)
	}
	it := trie.NewIterator(at.NodeIterator(nil))
	for it.Next() {
		var acc state.Account
		if err := rlp.DecodeBytes(it.Value, &acc); err != nil {
			return nil, fmt.Errorf("account leaf: %v", err)
		}
		o.Accounts++
		if acc.Balance != nil {
			if acc.Balance.Sign() < 0 {
				return nil, fmt.Errorf("negative balance in account leaf")
			}
			o.SumBalances.Add(o.SumBalances, acc.Balance)
		}
		if k := at.GetKey(it.Key); len(k) == common.AddressLength {
			o.Acct[common.BytesToAddress(k)] = acc
		}
	}
	if it.Err != nil {
		return nil, fmt.Errorf("account trie iteration: %v", it.Err)
	}
	vt, err := sdb.OpenTrie(h.ValRoot)
	if err != nil {
		return nil, fmt.Errorf("open validator trie: %v", err)
	}
	vit := trie.NewIterator(vt.NodeIterator(nil))
	for vit.Next() {
		v := vit.Value
		switch {
		case bytes.HasPrefix(v, flagVal):
			val := new(state.Validator)
			if err := rlp.DecodeBytes(v[len(flagVal):], val); err != nil {
				return nil, fmt.Errorf("validator leaf: %v", err)
			}
			o.Vals = append(o.Vals, val)
			o.ValByMain[val.MainAddress()] = val
			o.SumToken.Add(o.SumToken, val.Token)
			o.SumValRD.Add(o.SumValRD, val.RewardsDistributable)
		case bytes.HasPrefix(v, flagIndex):
			idx := state.NewValidatorIndex()
			if err := rlp.DecodeBytes(v[len(flagIndex):], idx); err != nil {
				return nil, fmt.Errorf("validator index leaf: %v", err)
			}
			o.Index = idx.List()
			o.HasIndex = true
		case bytes.HasPrefix(v, flagStat):
			st := state.NewValidatorsStat()
			if err := rlp.DecodeBytes(v[len(flagStat):], st); err != nil {
				return nil, fmt.Errorf("validator stat leaf: %v", err)
			}
			o.Stat = st
		case bytes.HasPrefix(v, flagWd):
			var q state.WithdrawQueue
			if err := rlp.DecodeBytes(v[len(flagWd):], &q); err != nil {
				return nil, fmt.Errorf("withdraw queue leaf: %v", err)
			}
			o.Withdraws = q.Records
		default:
			return nil, fmt.Errorf("unknown leaf in validator trie (%d bytes)", len(v))
		}
	}
	if vit.Err != nil {
		return nil, fmt.Errorf("validator trie iteration: %v", vit.Err)
	}
	sort.Slice(o.Vals, func(i, j int) bool {
		return bytes.Compare(o.Vals[i].MainAddress().Bytes(), o.Vals[j].MainAddress().Bytes()) < 0
	})
	for _, r := range o.Withdraws {
		if r.Finished == 0 && r.FinalBalance != nil {
			o.SumWithdraw.Add(o.SumWithdraw, r.FinalBalance)
		}
	}
	if o.Stat != nil {
		for _, k := range []params.ValidatorKind{params.KindValidator, params.KindChamber, params.KindHouse} {
			o.SumPools.Add(o.SumPools, o.Stat.GetByKind(k).GetRewardsDistributable())
			o.SumResidue.Add(o.SumResidue, o.Stat.GetByKind(k).GetRewardsResidue())
		}
		for _, r := range []params.ValidatorRole{params.RoleChancellor, params.RoleSenator, params.RoleHouse} {
			o.SumPools.Add(o.SumPools, o.Stat.GetByRole(r).GetRewardsDistributable())
			o.SumResidue.Add(o.SumResidue, o.Stat.GetByRole(r).GetRewardsResidue())
		}
	}
	for _, x := range []*big.Int{o.SumBalances, o.SumToken, o.SumWithdraw, o.SumValRD, o.SumPools, o.SumResidue} {
		o.Total.Add(o.Total, x)
	}
	return o, nil
}

// Balance returns the balance of a known account (zero if the account does not exist).
func (o *Obs) Balance(a common.Address) *big.Int {
	if acc, ok := o.Acct[a]; ok && acc.Balance != nil {
		return new(big.Int).Set(acc.Balance)
	}
	return new(big.Int)
}

// Breakdown renders the components of the sum (for violation messages).
func (o *Obs) Breakdown() string {
	return fmt.Sprintf("balances=%s tokens=%s withdraws=%s valRewards=%s pools=%s residue=%s total=%s",
		o.SumBalances, o.SumToken, o.SumWithdraw, o.SumValRD, o.SumPools, o.SumResidue, o.Total)
}

// LU renders an LU amount as YOU with the sub-unit remainder.
func LU(x *big.Int) string {
	q, r := new(big.Int).QuoRem(x, big.NewInt(params.YOU), new(big.Int))
	if r.Sign() == 0 {
		return q.String() + " YOU"
	}
	return fmt.Sprintf("%s LU (~%s YOU)", x.String(), q.String())
}
