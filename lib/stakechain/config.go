package stakechain

import (
	"fmt"
	"math/big"
	"sync"

	"github.com/youchainhq/go-youchain/params"
)

// Config is a scaled-down copy of the YouV5 parameter set (the NetworkIdForTestCase
// flavour of params.Versions). Only period lengths, delays, thresholds and fractions are
// scaled so that staking periods, forced settlement, withdraw maturity, inactivity and
// recovery from expelling are reachable within chains of 40-100 blocks. StakeLookBack
// (16) is left untouched; WithdrawDelay stays larger than it, as the parameter comment
// demands.
type Config struct {
	Name             string
	Freq             uint64 // StakingTrieFrequency
	MaxRewardsPeriod uint64
	WithdrawDelay    uint64
	Retention        uint64 // WithdrawRecordRetention
	InactWait        uint64 // InactivityPenaltyWaitRounds
	PenDS            uint64 // PenaltyFractionForDoubleSign (percent)
	PenInact         uint64 // PenaltyFractionForInactive (percent; 0 is the main-net V5 value)
	ExpelDS          uint64
	ExpelInact       uint64
	MinStakes        [3]uint64 // chancellor, senator, house
	MaxStakes        [3]uint64
	MinSelf          [3]uint64
	MinDelegYOU      int64
	MaxDlgPerVal     int
	MaxDlgPerDlg     int
	PoolYOU          int64 // genesis balance of the rewards pool account
	HouseSig         bool  // SignatureRequired[RoleHouse] (true on main net)
	EvidenceExpire   uint64
}

// Configs is the fixed table; one entry is installed per process.
var Configs = []Config{
	{Name: "f4-p2", Freq: 4, MaxRewardsPeriod: 2, WithdrawDelay: 17, Retention: 2, InactWait: 6, PenDS: 2, PenInact: 1,
		ExpelDS: 12, ExpelInact: 5, MinStakes: [3]uint64{1000, 500, 100}, MaxStakes: [3]uint64{4000, 2500, 800},
		MinSelf: [3]uint64{500, 500, 0}, MinDelegYOU: 10, MaxDlgPerVal: 3, MaxDlgPerDlg: 2, PoolYOU: 5000, EvidenceExpire: 6},
	{Name: "f4-p1-dry", Freq: 4, MaxRewardsPeriod: 1, WithdrawDelay: 17, Retention: 8, InactWait: 9, PenDS: 2, PenInact: 0,
		ExpelDS: 30, ExpelInact: 8, MinStakes: [3]uint64{1000, 500, 100}, MaxStakes: [3]uint64{1000000, 180000, 150000},
		MinSelf: [3]uint64{500, 500, 0}, MinDelegYOU: 10, MaxDlgPerVal: 20, MaxDlgPerDlg: 10, PoolYOU: 90, EvidenceExpire: 120},
	{Name: "f8-p2", Freq: 8, MaxRewardsPeriod: 2, WithdrawDelay: 20, Retention: 4, InactWait: 12, PenDS: 5, PenInact: 1,
		ExpelDS: 20, ExpelInact: 9, MinStakes: [3]uint64{1000, 500, 100}, MaxStakes: [3]uint64{5000, 3000, 1000},
		MinSelf: [3]uint64{500, 500, 0}, MinDelegYOU: 10, MaxDlgPerVal: 4, MaxDlgPerDlg: 3, PoolYOU: 5000, HouseSig: true, EvidenceExpire: 10},
	{Name: "f8-p1", Freq: 8, MaxRewardsPeriod: 1, WithdrawDelay: 17, Retention: 64, InactWait: 20, PenDS: 2, PenInact: 3,
		ExpelDS: 9, ExpelInact: 9, MinStakes: [3]uint64{1000, 500, 100}, MaxStakes: [3]uint64{1000000, 180000, 150000},
		MinSelf: [3]uint64{500, 500, 0}, MinDelegYOU: 1, MaxDlgPerVal: 20, MaxDlgPerDlg: 10, PoolYOU: 5000, EvidenceExpire: 120},
	{Name: "f4-p8", Freq: 4, MaxRewardsPeriod: 8, WithdrawDelay: 17, Retention: 1, InactWait: 1000, PenDS: 50, PenInact: 1,
		ExpelDS: 6, ExpelInact: 5, MinStakes: [3]uint64{1000, 500, 100}, MaxStakes: [3]uint64{3000, 2000, 600},
		MinSelf: [3]uint64{500, 500, 0}, MinDelegYOU: 10, MaxDlgPerVal: 2, MaxDlgPerDlg: 2, PoolYOU: 5000, EvidenceExpire: 3},
	{Name: "f8-p8-minself", Freq: 8, MaxRewardsPeriod: 8, WithdrawDelay: 24, Retention: 8, InactWait: 10, PenDS: 10, PenInact: 2,
		ExpelDS: 40, ExpelInact: 17, MinStakes: [3]uint64{1000, 500, 100}, MaxStakes: [3]uint64{1000000, 180000, 150000},
		MinSelf: [3]uint64{800, 100, 50}, MinDelegYOU: 25, MaxDlgPerVal: 20, MaxDlgPerDlg: 10, PoolYOU: 300, EvidenceExpire: 120},
	// 6, 7: the two MaxRewardsPeriod = 1 configurations with period 2. Only used instead of 1 and 3 while the
	// finding C07 stale-val-forced-settle is recorded as unrepaired: with MaxRewardsPeriod = 1 every online
	// validator is force-settled at every period end, so the defect cannot be kept out by construction.
	{Name: "f4-p2-dry", Freq: 4, MaxRewardsPeriod: 2, WithdrawDelay: 17, Retention: 8, InactWait: 9, PenDS: 2, PenInact: 0,
		ExpelDS: 30, ExpelInact: 8, MinStakes: [3]uint64{1000, 500, 100}, MaxStakes: [3]uint64{1000000, 180000, 150000},
		MinSelf: [3]uint64{500, 500, 0}, MinDelegYOU: 10, MaxDlgPerVal: 20, MaxDlgPerDlg: 10, PoolYOU: 90, EvidenceExpire: 120},
	{Name: "f8-p2b", Freq: 8, MaxRewardsPeriod: 2, WithdrawDelay: 17, Retention: 64, InactWait: 20, PenDS: 2, PenInact: 3,
		ExpelDS: 9, ExpelInact: 9, MinStakes: [3]uint64{1000, 500, 100}, MaxStakes: [3]uint64{1000000, 180000, 150000},
		MinSelf: [3]uint64{500, 500, 0}, MinDelegYOU: 1, MaxDlgPerVal: 20, MaxDlgPerDlg: 10, PoolYOU: 5000, EvidenceExpire: 120},
}

// NProcessConfigs is the number of configurations ProcessConfig chooses from.
const NProcessConfigs = 6

var (
	installMu sync.Mutex
	installed = -1
)

// ProcessConfig maps (VERIF_SEED, VERIF_SHARD) to the configuration of this process.
func ProcessConfig(seed uint64, shard int) int {
	return int((seed + uint64(shard)) % NProcessConfigs)
}

// Install makes configuration idx the YouV5 parameter set of this process. In a search
// run it is called once (every generated case carries the process's index). In replay
// mode consecutive files may carry different indices; switching is only done between
// cases, when no chain, staking module or pool of a previous case is alive.
func Install(idx int) *Config {
	installMu.Lock()
	defer installMu.Unlock()
	if idx < 0 || idx >= len(Configs) {
		panic(fmt.Sprintf("stakechain: no config %d", idx))
	}
	c := &Configs[idx]
	if installed == idx {
		return c
	}
	params.InitNetworkId(params.NetworkIdForTestCase)
	base, ok := params.Versions[params.YouV5]
	if !ok {
		panic("stakechain: no YouV5 parameter set")
	}
	v5 := base.DeepCopy()
	v5.StakingTrieFrequency = c.Freq
	v5.MaxRewardsPeriod = c.MaxRewardsPeriod
	v5.WithdrawDelay = c.WithdrawDelay
	v5.WithdrawRecordRetention = c.Retention
	v5.InactivityPenaltyWaitRounds = c.InactWait
	v5.PenaltyFractionForDoubleSign = c.PenDS
	v5.PenaltyFractionForInactive = c.PenInact
	v5.ExpelledRoundForDoubleSign = c.ExpelDS
	v5.ExpelledRoundForInactive = c.ExpelInact
	v5.MaxEvidenceExpiredIn = c.EvidenceExpire
	roles := []params.ValidatorRole{params.RoleChancellor, params.RoleSenator, params.RoleHouse}
	for i, r := range roles {
		v5.MinStakes[r] = c.MinStakes[i]
		v5.MaxStakes[r] = c.MaxStakes[i]
		v5.MinSelfStakes[r] = c.MinSelf[i]
	}
	v5.MinDelegationTokens = new(big.Int).Mul(big.NewInt(c.MinDelegYOU), params.StakeUint)
	v5.MaxDelegationForValidator = c.MaxDlgPerVal
	v5.MaxDelegationForDelegator = c.MaxDlgPerDlg
	v5.SignatureRequired[params.RoleHouse] = c.HouseSig
	v5.MasterAddress = Master.Addr
	if v5.WithdrawDelay <= v5.StakeLookBack {
		panic("stakechain: WithdrawDelay must exceed StakeLookBack")
	}
	params.Versions[params.YouV5] = v5
	installed = idx
	return c
}

// Params returns the installed YouV5 parameter set.
func Params() params.YouParams { return params.Versions[params.YouV5] }

// RoleIdx maps a role to 0..2.
func RoleIdx(r params.ValidatorRole) int { return int(r) - 1 }

// You converts whole YOU to LU.
func You(n int64) *big.Int { return new(big.Int).Mul(big.NewInt(n), big.NewInt(params.YOU)) }
