package stakechain

import (
	"pgregory.net/rapid"
)

// Generators shared by the chain checks (C05, C06, C07). ALL randomness comes from rapid draws.

var kindWeights = []struct {
	k string
	w int
}{
	{"xfer", 10}, {"deploy", 3}, {"call", 6}, {"vcreate", 6}, {"vupdate", 6}, {"vdeposit", 9}, {"vwithdraw", 10},
	{"vstatus", 9}, {"vsettle", 4}, {"dadd", 14}, {"dsub", 10}, {"dsettle", 3}, {"raw", 3},
}

// GenKind draws a transaction kind.
func GenKind(t *rapid.T) string {
	total := 0
	for _, kw := range kindWeights {
		total += kw.w
	}
	x := rapid.IntRange(0, total-1).Draw(t, "kind")
	for _, kw := range kindWeights {
		if x < kw.w {
			return kw.k
		}
		x -= kw.w
	}
	return "xfer"
}

// Rare is true with the given percentage.
func Rare(t *rapid.T, label string, pct int) bool {
	return rapid.IntRange(0, 99).Draw(t, label) < pct
}

// GenOp draws one transaction of the given kind.
func GenOp(t *rapid.T, kind string) Op {
	op := Op{K: kind}
	op.N = rapid.IntRange(0, 400).Draw(t, "n")
	if !Rare(t, "m0", 45) {
		op.M = rapid.IntRange(1, 7).Draw(t, "m")
	}
	op.X = rapid.IntRange(0, 63).Draw(t, "x")
	op.Y = rapid.IntRange(0, 71).Draw(t, "y")
	op.P = rapid.IntRange(0, 5).Draw(t, "p")
	if Rare(t, "phi", 4) {
		op.P = rapid.IntRange(6, 7).Draw(t, "p2")
	}
	if Rare(t, "godd", 6) {
		op.G = rapid.IntRange(8, 11).Draw(t, "g")
	}
	if Rare(t, "nonce", 3) {
		op.NO = rapid.SampledFrom([]int{-1, 1}).Draw(t, "no")
	}
	op.V = rapid.IntRange(0, 7).Draw(t, "v")
	if Rare(t, "vraw", 6) {
		op.V = -1 - rapid.IntRange(0, NVal-1).Draw(t, "vid")
	}
	switch kind {
	case "xfer":
		op.A = rapid.IntRange(0, NAcct-1).Draw(t, "a")
		op.X = rapid.IntRange(0, NAcct+11).Draw(t, "to")
	case "deploy", "call", "raw":
		op.A = rapid.IntRange(0, NSenders-1).Draw(t, "a")
		if kind == "deploy" {
			op.X = rapid.IntRange(0, NContractKinds-1).Draw(t, "ckind")
			if op.X == KindFwdRevert && NestedRevertBroken() {
				op.X = 4 // see probe.go: excluded while the C09 journal defect is present
			}
		}
		if kind == "call" {
			op.Y = rapid.IntRange(0, NAcct+15).Draw(t, "tgt")
		}
	case "vcreate":
		op.X = rapid.IntRange(0, 63).Draw(t, "flags") &^ 1
		if Rare(t, "exists", 8) {
			op.X |= 1
		}
		if Rare(t, "nosig", 5) {
			op.X |= 1 << 6
		}
		if Rare(t, "badrate", 3) {
			op.Y += 72 * 8
		}
		if Rare(t, "other", 6) {
			op.A = rapid.IntRange(1, NSenders).Draw(t, "a")
		}
	case "vupdate", "vdeposit", "vwithdraw", "vstatus", "vsettle":
		if Rare(t, "other", 6) {
			op.A = rapid.IntRange(1, NSenders).Draw(t, "a")
		}
		if Rare(t, "nosig", 4) {
			op.X |= 1 << 6
		}
		if kind == "vupdate" {
			op.X = rapid.IntRange(0, 63).Draw(t, "fields")
			if Rare(t, "keepop", 85) {
				op.X &^= 16 // changing the operator is rare
			}
			op.Y = rapid.IntRange(0, 71).Draw(t, "rates")
			if Rare(t, "badrate", 3) {
				op.Y += 72 * 8
			}
		}
	case "dadd", "dsub", "dsettle":
		op.A = rapid.IntRange(0, NDeleg-1).Draw(t, "a")
		if Rare(t, "odd-delegator", 6) {
			op.A = NDeleg*3 + rapid.IntRange(0, 20).Draw(t, "a2")
		}
		op.X = 0
		if Rare(t, "txvalue", 5) {
			op.X = 1
		}
	}
	return op
}

// GenGenesis draws 1-2 chancellors, 1-2 senators and 1-3 HOUSE validators (house validators are
// required: the role pools are empty without them); the first validator is an online chancellor.
func GenGenesis(t *rapid.T, cfg *Config) []GenVal {
	var out []GenVal
	id := 0
	add := func(role uint8, lo, hi int64) {
		g := GenVal{ID: id, Role: role, YOU: rapid.Int64Range(lo, hi).Draw(t, "you")}
		if Rare(t, "sub", 25) {
			g.Sub = uint64(rapid.IntRange(1, 999).Draw(t, "subunit"))
		}
		if len(out) > 0 && Rare(t, "offline", 10) {
			g.Offline = true
		}
		out = append(out, g)
		id++
	}
	capOf := func(i int, want int64) int64 {
		if m := int64(cfg.MaxStakes[i]); m > 0 && want > m-1 {
			return m - 1
		}
		return want
	}
	for i, n := 0, rapid.IntRange(1, 2).Draw(t, "nchanc"); i < n; i++ {
		add(1, int64(cfg.MinStakes[0]), capOf(0, int64(cfg.MinStakes[0])+1500))
	}
	for i, n := 0, rapid.IntRange(1, 2).Draw(t, "nsen"); i < n; i++ {
		add(2, int64(cfg.MinStakes[1]), capOf(1, int64(cfg.MinStakes[1])+1000))
	}
	for i, n := 0, rapid.IntRange(1, 3).Draw(t, "nhouse"); i < n; i++ {
		add(3, int64(cfg.MinStakes[2]), capOf(2, int64(cfg.MinStakes[2])+300))
	}
	return out
}

// GenEquivocation draws an evidence from the byzantine corpus: a real equivocation (two
// hashes, same kind, same index), sometimes malformed or mis-placed.
func GenEquivocation(t *rapid.T) EvSpec {
	kind := rapid.SampledFrom([]uint8{KPrevote, KPrecommit, KCert}).Draw(t, "ekind")
	h := rapid.IntRange(0, 5).Draw(t, "eh")
	es := EvSpec{Signer: rapid.IntRange(0, 7).Draw(t, "esigner"), Index: uint32(rapid.IntRange(1, 3).Draw(t, "eidx")), VoteType: kind,
		Pairs: []PairSpec{{Kind: kind, Hash: h}, {Kind: kind, Hash: h + 1 + rapid.IntRange(0, 3).Draw(t, "eh2")}}}
	switch rapid.IntRange(0, 11).Draw(t, "eshape") {
	case 0:
		es.Round = rapid.SampledFrom([]int{-1, 1, -50, 3}).Draw(t, "eround")
	case 1:
		es.Pairs[1].Garble = true
	case 2:
		es.Raw = rapid.IntRange(1, 4).Draw(t, "eraw")
	case 3:
		es.Signer = -1 - rapid.IntRange(0, 12).Draw(t, "erawidx")
	}
	return es
}

// GenBlocks draws a chain of n blocks over the full transaction alphabet, with 0..maxEv
// evidences from the byzantine corpus at drawn heights (BLS verification in the pure-Go
// pairing library costs tens of milliseconds per signature and every node repeats it).
func GenBlocks(t *rapid.T, gen []GenVal, freq int, n int, maxEv int) []BlockSpec {
	var out []BlockSpec
	favourite := rapid.IntRange(0, 3).Draw(t, "favourite")
	for i := 0; i < n; i++ {
		bs := BlockSpec{CB: favourite, Pool: rapid.IntRange(0, 2).Draw(t, "pool") != 0}
		if Rare(t, "othercb", 45) {
			bs.CB = rapid.IntRange(0, 3).Draw(t, "cb")
		}
		if i == 0 {
			// prelude: genesis validators are created with AcceptDelegation = 0; most open up in block 1
			for k := range gen {
				if Rare(t, "open", 75) {
					bs.Ops = append(bs.Ops, Op{K: "vupdate", V: -1 - gen[k].ID, X: 1 | 2 | 4, Y: 36 + rapid.IntRange(0, 35).Draw(t, "rates"), P: k % 6})
				}
			}
		}
		nops := 0
		if !Rare(t, "emptyblock", 35) {
			nops = rapid.IntRange(1, 4).Draw(t, "nops")
		}
		for j := 0; j < nops; j++ {
			bs.Ops = append(bs.Ops, GenOp(t, GenKind(t)))
		}
		out = append(out, bs)
	}
	// Directed scenario (a third of the cases): inside ONE staking period a delegation larger than the
	// validator's own stake, then a withdrawal of everything the pending record allows, then a deposit
	// up to the maximum. The three handlers share one pending record with three meanings (total tokens,
	// self tokens, "0 = none"), so at the period end either the deposit or the delegation no longer fits
	// under MaxStakes and must be REFUNDED (teDeposit / teDelegationAdd failure paths).
	if periods := n / freq; periods >= 3 && rapid.IntRange(0, 2).Draw(t, "scenario") == 0 {
		p := rapid.IntRange(1, periods-1).Draw(t, "scenario-period")
		i0 := p*freq - 1
		v := -1 - gen[rapid.IntRange(0, len(gen)-1).Draw(t, "scenario-val")].ID
		d := rapid.IntRange(0, NDeleg-1).Draw(t, "scenario-delegator")
		if i0+2 < n {
			out[i0].Ops = append(out[i0].Ops, Op{K: "dadd", A: d, V: v, M: 7, N: rapid.IntRange(0, 49).Draw(t, "scenario-n"), P: 3})
			out[i0+1].Ops = append(out[i0+1].Ops, Op{K: "vwithdraw", V: v, M: 7, X: rapid.IntRange(0, NAcct-1).Draw(t, "scenario-rcpt"), P: 3})
			out[i0+2].Ops = append(out[i0+2].Ops, Op{K: "vdeposit", V: v, M: 1, P: 3})
		}
	}
	// Contract activity beyond transfers (half of the cases): an inspecting contract (EXTCODESIZE / EXTCODEHASH /
	// BALANCE / EXTCODECOPY / SSTORE / LOG / value CALL on a generated address) and a CREATE factory are deployed
	// early and called a few times with drawn targets (plain funded accounts, validator main addresses and
	// coinbases, the staking module, the reward pool, contracts incl. self-destructed ones, absent addresses).
	if n >= 4 && rapid.Bool().Draw(t, "contracts") {
		d := rapid.IntRange(0, 1).Draw(t, "deploy-at")
		out[d].Ops = append(out[d].Ops, Op{K: "deploy", A: AcctPlain, X: KindProbe, P: 1}, Op{K: "deploy", A: AcctPlain + 1, X: KindFactory, P: 2})
		for i, nc := 0, rapid.IntRange(1, 5).Draw(t, "ncalls"); i < nc; i++ {
			at := rapid.IntRange(d+1, n-1).Draw(t, "call-at")
			kind := KindProbe
			if rapid.IntRange(0, 3).Draw(t, "call-factory") == 0 {
				kind = KindFactory
			}
			out[at].Ops = append(out[at].Ops, Op{K: "call", A: rapid.IntRange(0, NSenders-1).Draw(t, "caller"), X: ByKind + kind,
				Y: rapid.IntRange(0, NAcct+18).Draw(t, "target"), M: rapid.IntRange(0, 2).Draw(t, "with-value"), N: rapid.IntRange(0, 79).Draw(t, "value"), P: rapid.IntRange(0, 5).Draw(t, "price")})
		}
	}
	if rapid.IntRange(0, 3).Draw(t, "scenario2") == 0 {
		AddUnbindScenario(t, out, gen, freq)
	}
	for i, ne := 0, rapid.IntRange(0, maxEv).Draw(t, "nevidence"); i < ne; i++ {
		at := rapid.IntRange(0, n-1).Draw(t, "evidence-at")
		out[at].Ev = append(out[at].Ev, GenEquivocation(t))
	}
	return out
}

// AddUnbindScenario adds a directed four-period scenario to a chain of at least 4*freq blocks: a
// genesis HOUSE validator opens for delegation (period 0), receives a delegation of MinStakes
// (period 1), withdraws its own stake down to max(MinSelfStake, 10-29 units) (period 2: it stays
// online because self + delegation still reaches MinStakes), and then the delegator unbinds
// everything (period 3): at that period end the validator's total stake falls below MinStakes and
// teDelegationSub forces it offline. It reports whether the chain was long enough.
func AddUnbindScenario(t *rapid.T, out []BlockSpec, gen []GenVal, freq int) bool {
	if len(out) < 4*freq {
		return false
	}
	var houses []int
	for _, g := range gen {
		if g.Role == 3 && !g.Offline {
			houses = append(houses, g.ID)
		}
	}
	if len(houses) == 0 {
		return false
	}
	v := -1 - houses[rapid.IntRange(0, len(houses)-1).Draw(t, "unbind-val")]
	d := rapid.IntRange(0, NDeleg-1).Draw(t, "unbind-delegator")
	out[0].Ops = append(out[0].Ops, Op{K: "vupdate", V: v, X: 1, Y: 36, P: 2})
	// dadd mode 8 is not needed: MinStakes[house] (100 units) = MinDelegation + N units with N = 100 - MinDeleg is config dependent,
	// so the amount is given as "Min + N units" with N = 100: total delegated >= MinStakes in every configuration.
	out[freq-1].Ops = append(out[freq-1].Ops, Op{K: "dadd", A: d, V: v, M: 0, N: 100, P: 2})
	wblk, ublk := 2*freq-1, 3*freq-1
	if rapid.IntRange(0, 2).Draw(t, "unbind-same-period") == 0 {
		// the self-withdrawal and the unbind are pending in the SAME period (the aid record (zero, validator)
		// then holds the remaining self tokens when the unbind is subtracted from it)
		wblk = 2*freq + rapid.IntRange(0, freq-2).Draw(t, "unbind-wblk")
		ublk = wblk + rapid.IntRange(1, 3*freq-1-wblk).Draw(t, "unbind-ublk")
	}
	out[wblk].Ops = append(out[wblk].Ops, Op{K: "vwithdraw", V: v, M: 8, N: rapid.IntRange(0, 19).Draw(t, "unbind-keep"), X: rapid.IntRange(0, NAcct-1).Draw(t, "unbind-rcpt"), P: 2})
	sub := Op{K: "dsub", A: d, V: v, M: 1, P: 2}
	if rapid.Bool().Draw(t, "unbind-partial") {
		sub.M, sub.N = 0, 94 // 95 units: the rest stays delegated (>= MinDelegation where that is <= 5+Min.. otherwise forced full)
	}
	out[ublk].Ops = append(out[ublk].Ops, sub)
	return true
}
