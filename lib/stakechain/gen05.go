package stakechain

import (
	"pgregory.net/rapid"
)

// ---------------------------------------------------------------------------------
// C05: evidence corpus generator

// KnownEv tells the evidence generator which root-cause classes are recorded as
// unrepaired findings and therefore excluded by construction.
type KnownEv struct {
	DupPair, CrossKind, NextIndex bool
}

var voteKinds = []uint8{KPrevote, KPrecommit, KCert, KNext}

// specClass predicts, from the spec alone, by which class an evidence assembled from an
// honest corpus would pass the signature gate ("" if it cannot pass or the corpus is not honest).
func specClass(es EvSpec) string {
	if es.Raw != 0 || len(es.Pairs) < 2 {
		return ""
	}
	info := &EvInfo{Spec: es}
	for _, p := range es.Pairs {
		if p.By != 0 || p.SRound != 0 || p.SIndex != 0 || p.Garble || p.Claim != 0 {
			return ""
		}
		info.Pairs = append(info.Pairs, PairInfo{PairSpec: p, ByAccused: true, Valid: true})
	}
	info.PassesGate = true
	return info.HonestClass()
}

// GenEvidence draws an evidence blob for C05. excluded receives the names of the classes
// that were kept out by construction for this draw.
func GenEvidence(t *rapid.T, known KnownEv, excluded *[]string) EvSpec {
	es := EvSpec{
		Signer:   rapid.IntRange(0, 7).Draw(t, "signer"),
		Index:    uint32(rapid.IntRange(1, 3).Draw(t, "index")),
		VoteType: rapid.SampledFrom([]uint8{KPrevote, KPrecommit, KCert, KNext, 0, 1, 9}).Draw(t, "vtype"),
	}
	intent := rapid.SampledFrom([]string{"honest", "honest", "honest", "genuine", "genuine", "junk"}).Draw(t, "intent")
	switch intent {
	case "honest":
		// an honest emission pattern for one (round, index): one hash per kind, two for next-index
		pattern := []PairSpec{}
		for _, k := range voteKinds {
			if Rare(t, "emits", 80) {
				pattern = append(pattern, PairSpec{Kind: k, Hash: rapid.IntRange(0, 3).Draw(t, "h")})
			}
		}
		if Rare(t, "next2", 50) {
			pattern = append(pattern, PairSpec{Kind: KNext, Hash: rapid.IntRange(0, 4).Draw(t, "h")})
		}
		if len(pattern) == 0 {
			pattern = append(pattern, PairSpec{Kind: KPrevote, Hash: 0})
		}
		n := rapid.IntRange(1, 4).Draw(t, "npairs")
		for i := 0; i < n; i++ {
			es.Pairs = append(es.Pairs, pattern[rapid.IntRange(0, len(pattern)-1).Draw(t, "pick")])
		}
		// votes of the same validator from another index / round, another validator's vote, damaged signatures
		for i := range es.Pairs {
			switch rapid.IntRange(0, 19).Draw(t, "twist") {
			case 0:
				es.Pairs[i].SIndex = rapid.SampledFrom([]int{-1, 1, 2}).Draw(t, "sindex")
				es.Pairs[i].Hash += 10 // a different (round, index) is a different vote: any hash is honest there
			case 1:
				es.Pairs[i].SRound = rapid.SampledFrom([]int{-1, 1, -3}).Draw(t, "sround")
				es.Pairs[i].Hash += 10
			case 2:
				es.Pairs[i].By = 1 + rapid.IntRange(0, NVal-1).Draw(t, "by")
			case 3:
				es.Pairs[i].Garble = true
			case 4:
				es.Pairs[i].Claim = 1 + rapid.IntRange(0, 5).Draw(t, "claim")
			}
		}
		if rapid.IntRange(0, 3).Draw(t, "label") == 0 && len(es.Pairs) > 0 {
			es.VoteType = es.Pairs[0].Kind
		}
	case "genuine":
		kind := rapid.SampledFrom([]uint8{KPrevote, KPrecommit, KCert}).Draw(t, "ekind")
		h := rapid.IntRange(0, 5).Draw(t, "eh")
		es.VoteType = kind
		es.Pairs = []PairSpec{{Kind: kind, Hash: h}, {Kind: kind, Hash: h + 1 + rapid.IntRange(0, 3).Draw(t, "eh2")}}
		switch rapid.IntRange(0, 15).Draw(t, "eshape") {
		case 0:
			es.Pairs = append(es.Pairs, PairSpec{Kind: kind, Hash: h + 7}) // a third conflicting vote
		case 1:
			es.Pairs[1].Garble = true
		case 2:
			es.VoteType = rapid.SampledFrom([]uint8{0, 1, KNext, 9}).Draw(t, "badlabel")
		case 3:
			es.Pairs = append(es.Pairs, PairSpec{Kind: kind, Hash: h, By: 1 + rapid.IntRange(0, NVal-1).Draw(t, "by")})
		}
	default:
		es.Pairs = []PairSpec{{Kind: KPrevote, Hash: 1}, {Kind: KPrevote, Hash: 2}}
		switch rapid.IntRange(0, 4).Draw(t, "junk") {
		case 0:
			es.Raw = rapid.IntRange(1, 4).Draw(t, "raw")
		case 1:
			es.Pairs = es.Pairs[:1]
		case 2:
			es.Pairs = nil
		case 3:
			es.Signer = -1 - rapid.IntRange(0, 14).Draw(t, "rawidx")
		default:
			es.Pairs[0].By, es.Pairs[1].By = 3, 3
		}
	}
	if Rare(t, "otherround", 8) {
		es.Round = rapid.SampledFrom([]int{-1, 1, 2, -40}).Draw(t, "round")
	}
	// exclusion of recorded findings, by construction
	if cls := specClass(es); cls != "" {
		if (cls == "dup-pair-evidence" && known.DupPair) || (cls == "cross-kind-evidence" && known.CrossKind) || (cls == "next-index-evidence" && known.NextIndex) {
			*excluded = append(*excluded, "excluded:"+cls)
			if rapid.Bool().Draw(t, "excl-how") {
				// turn it into votes of another index: it no longer verifies
				es.Pairs[len(es.Pairs)-1].SIndex = 1
				es.Pairs[len(es.Pairs)-1].Hash += 10
			} else {
				// turn it into a real equivocation
				es.Pairs = []PairSpec{{Kind: KPrecommit, Hash: 0}, {Kind: KPrecommit, Hash: 1}}
				es.VoteType = KPrecommit
			}
		}
	}
	return es
}

// GenStakingSetup draws three staking periods of directed activity that give the
// validators delegations, risk obligations and unfinished withdraw records:
// period 1 opens the validators for delegation, period 2 delegates, period 3 unbinds and withdraws.
func GenStakingSetup(t *rapid.T, gen []GenVal, cfg *Config) []BlockSpec {
	f := int(cfg.Freq)
	blocks := make([]BlockSpec, 3*f)
	for i := range blocks {
		blocks[i] = BlockSpec{CB: rapid.IntRange(0, 1).Draw(t, "cb"), Pool: true}
	}
	for k := range gen {
		blocks[0].Ops = append(blocks[0].Ops, Op{K: "vupdate", V: -1 - gen[k].ID, X: 1 | 2 | 4, Y: 36 + rapid.IntRange(0, 35).Draw(t, "rates"), P: k % 6})
	}
	nd := rapid.IntRange(1, 5).Draw(t, "ndeleg")
	for i := 0; i < nd; i++ {
		b := f + rapid.IntRange(0, f-1).Draw(t, "dblock")
		blocks[b].Ops = append(blocks[b].Ops, Op{K: "dadd", A: rapid.IntRange(0, NDeleg-1).Draw(t, "d"), V: -1 - gen[rapid.IntRange(0, len(gen)-1).Draw(t, "dv")].ID,
			M: rapid.SampledFrom([]int{0, 0, 5, 6}).Draw(t, "dm"), N: rapid.IntRange(0, 120).Draw(t, "dn"), P: i % 6})
	}
	nu := rapid.IntRange(0, 4).Draw(t, "nunbind")
	for i := 0; i < nu; i++ {
		b := 2*f + rapid.IntRange(0, f-1).Draw(t, "ublock")
		if rapid.Bool().Draw(t, "uself") {
			blocks[b].Ops = append(blocks[b].Ops, Op{K: "vwithdraw", V: -1 - gen[rapid.IntRange(0, len(gen)-1).Draw(t, "uv")].ID,
				M: rapid.SampledFrom([]int{0, 0, 5}).Draw(t, "um"), N: rapid.IntRange(0, 80).Draw(t, "un"), X: rapid.IntRange(0, NAcct-1).Draw(t, "rcpt"), P: i % 6})
		} else {
			blocks[b].Ops = append(blocks[b].Ops, Op{K: "dsub", A: rapid.IntRange(0, NDeleg-1).Draw(t, "d"), V: -1 - gen[rapid.IntRange(0, len(gen)-1).Draw(t, "uv")].ID,
				M: rapid.SampledFrom([]int{0, 1, 5}).Draw(t, "um"), N: rapid.IntRange(0, 40).Draw(t, "un"), P: i % 6})
		}
	}
	return blocks
}
