package stakechain

import (
	"math/big"

	"github.com/youchainhq/go-youchain/common"
	"github.com/youchainhq/go-youchain/core/state"
	"github.com/youchainhq/go-youchain/params"
	"github.com/youchainhq/go-youchain/rlp"
	"github.com/youchainhq/go-youchain/staking"
)

// Vote kinds (staking/slash_youv5.go mirrors the ucon VoteType values).
const (
	KPrevote   = staking.Prevote
	KPrecommit = staking.Precommit
	KNext      = staking.NextIndex
	KCert      = staking.Certificate
)

// PairSpec is one (hash, signature) pair of an evidence. The signature is the one a
// validator emitted for a vote of kind Kind for hash HashN(Hash) in (round+SRound,
// index+SIndex): this is the explicit vote corpus the evidence is assembled from.
type PairSpec struct {
	By     int   `json:"by,omitempty"`     // 0: the accused validator's key; k>0: identity (k-1)'s key
	Kind   uint8 `json:"kind"`             // kind of the vote the signature was emitted for
	Hash   int   `json:"hash"`             // index into the hash pool
	SRound int   `json:"sround,omitempty"` // signed round  = evidence round + SRound
	SIndex int   `json:"sindex,omitempty"` // signed index  = evidence index + SIndex
	Garble bool  `json:"garble,omitempty"` // flip one bit of the signature
	Claim  int   `json:"claim,omitempty"`  // if != 0 the pair lists hash HashN(Claim-1) instead of the signed one
}

// EvSpec is one evidence blob as plain data.
type EvSpec struct {
	Signer   int        `json:"signer"`          // 0..99: current validator Signer%len (index looked up in the look-back set); >=100: identity Signer-100; <0: raw index -Signer-1
	Round    int        `json:"round,omitempty"` // evidence round = parent height + Round
	Index    uint32     `json:"index"`           // round index label
	VoteType uint8      `json:"vtype"`           // vote type label
	Pairs    []PairSpec `json:"pairs"`
	Raw      int        `json:"raw,omitempty"` // 0 well-formed; 1 undecodable data; 2 unknown evidence type; 3 deprecated "doublesign" type; 4 inactive type
	Adv      bool       `json:"adv,omitempty"` // placed directly into SlashData by an adversarial proposer (C05)
}

// PairInfo is the resolved form of a pair.
type PairInfo struct {
	PairSpec
	ByAccused bool
	Valid     bool // verifies under the accused validator's BLS key for (evidence round, evidence index, listed hash)
	Listed    common.Hash
	Signed    common.Hash
}

// EvInfo is everything the oracle needs to know about a built evidence.
type EvInfo struct {
	Spec        EvSpec
	Ev          staking.Evidence
	Round       uint64
	RightHeight bool // Round == parent height
	Decodable   bool
	SignerIdx   uint32
	Accused     common.Address // main address at SignerIdx in the look-back set (zero if out of range)
	AccusedID   int
	Pairs       []PairInfo
	PassesGate  bool // decodable, right type, >= 2 pairs, existing signer, every signature verifies
}

// lookBackSet returns the validator set a vote of the given round is checked against.
func (w *World) lookBackSet(round uint64, cert bool) *state.Validators {
	r, err := w.Net.A.BC.LookBackVldReaderForRound(round, cert)
	if err != nil {
		return nil
	}
	return r.GetValidators()
}

// BuildEvidence resolves an evidence spec against the builder's chain (parent = current head).
func (w *World) BuildEvidence(es EvSpec, vals []*state.Validator) *EvInfo {
	parent := w.Net.A.Head().NumberU64()
	info := &EvInfo{Spec: es, AccusedID: -1}
	r := int64(parent) + int64(es.Round)
	if r < 0 {
		r = 0
	}
	info.Round = uint64(r)
	info.RightHeight = info.Round == parent
	set := w.lookBackSet(info.Round, es.VoteType == KCert)
	// signer index
	if es.Signer >= 0 && len(vals) > 0 && set != nil {
		main := vals[es.Signer%len(vals)].MainAddress()
		if es.Signer >= 100 {
			main = Vals[(es.Signer-100)%NVal].MainAddr // addressed by identity
		}
		if idx, ok := set.GetIndex(main); ok {
			info.SignerIdx = uint32(idx)
		} else {
			info.SignerIdx = uint32(set.Len()) // not a voter of that round: out of range
		}
	} else {
		info.SignerIdx = uint32(-es.Signer - 1)
		if es.Signer >= 0 {
			info.SignerIdx = uint32(es.Signer)
		}
	}
	if set != nil {
		if v, ok := set.GetByIndex(int(info.SignerIdx)); ok {
			info.Accused = v.MainAddress()
			info.AccusedID = ValIndexByMain(info.Accused)
		}
	}
	idx := es.Index
	var signs []*staking.SignInfo
	allValid := true
	for _, p := range es.Pairs {
		pi := PairInfo{PairSpec: p}
		signerID := info.AccusedID
		if p.By > 0 {
			signerID = mod(p.By-1, NVal)
		}
		pi.ByAccused = signerID >= 0 && signerID == info.AccusedID
		sr := int64(info.Round) + int64(p.SRound)
		if sr < 0 {
			sr = 0
		}
		si := int64(idx) + int64(p.SIndex)
		if si < 0 {
			si = 0
		}
		pi.Signed = HashN(p.Hash)
		pi.Listed = pi.Signed
		if p.Claim != 0 {
			pi.Listed = HashN(p.Claim - 1)
		}
		var sig []byte
		if signerID >= 0 {
			sig = SignVote(signerID, pi.Signed, uint64(sr), uint32(si))
		} else {
			sig = make([]byte, 48) // nobody to sign: garbage
		}
		if p.Garble {
			sig[len(sig)-1] ^= 0x01
		}
		pi.Valid = pi.ByAccused && !p.Garble && uint64(sr) == info.Round && uint32(si) == idx && pi.Listed == pi.Signed
		if !pi.Valid {
			allValid = false
		}
		info.Pairs = append(info.Pairs, pi)
		signs = append(signs, &staking.SignInfo{Hash: pi.Listed, Sign: sig})
	}
	data := staking.EvidenceDoubleSignV5{Round: info.Round, RoundIndex: idx, SignerIdx: info.SignerIdx, VoteType: es.VoteType, Signs: signs}
	info.Decodable = true
	switch es.Raw {
	case 1:
		ev := staking.NewEvidence(data)
		if len(ev.Data) > 3 {
			ev.Data = ev.Data[:len(ev.Data)-3]
		}
		info.Ev, info.Decodable = ev, false
	case 2:
		ev := staking.NewEvidence(data)
		ev.Type = "verif-unknown"
		info.Ev, info.Decodable = ev, false
	case 3:
		m := map[common.Hash][]byte{}
		for _, s := range signs {
			m[s.Hash] = s.Sign
		}
		info.Ev = staking.NewEvidence(staking.EvidenceDoubleSign{Round: new(big.Int).SetUint64(info.Round), RoundIndex: idx, Signs: m})
		info.Decodable = false
	case 4:
		var addrs []common.Address
		if info.Accused != (common.Address{}) {
			addrs = append(addrs, info.Accused)
		}
		info.Ev = staking.NewEvidence(staking.EvidenceInactive{Round: info.Round, Validators: addrs})
		info.Decodable = false
	default:
		info.Ev = staking.NewEvidence(data)
	}
	info.PassesGate = info.Decodable && len(es.Pairs) >= 2 && info.Accused != (common.Address{}) && allValid
	return info
}

// CorpusHonest reports whether the votes the ACCUSED validator signed (all pairs made
// with its key, with the kinds they were emitted for) form an emission pattern an honest
// validator can produce: per (round, index) at most one prevote, one precommit and one
// certificate vote (each for one hash) and at most two next-index votes.
func (e *EvInfo) CorpusHonest() bool {
	type slot struct {
		r, i int
		k    uint8
	}
	seen := map[slot]map[int]bool{}
	for _, p := range e.Pairs {
		if !p.ByAccused {
			continue
		}
		s := slot{p.SRound, p.SIndex, p.Kind}
		if seen[s] == nil {
			seen[s] = map[int]bool{}
		}
		seen[s][p.Hash] = true
	}
	for s, hs := range seen {
		limit := 1
		if s.k == KNext {
			limit = 2
		}
		if s.k != KPrevote && s.k != KPrecommit && s.k != KCert && s.k != KNext {
			limit = 1
		}
		if len(hs) > limit {
			return false
		}
	}
	return true
}

// DetectorShaped reports whether the evidence is exactly what the honest detector
// (consensus/ucon/voter.go) emits for a real equivocation: two pairs signed by the
// accused for the evidence's own (round, index), same kind (not next-index), different
// hashes, labelled with that kind, everything verifying.
func (e *EvInfo) DetectorShaped() bool {
	if e.Spec.Raw != 0 || len(e.Pairs) != 2 || !e.PassesGate {
		return false
	}
	a, b := e.Pairs[0], e.Pairs[1]
	return a.Kind == b.Kind && a.Kind != KNext && (a.Kind == KPrevote || a.Kind == KPrecommit || a.Kind == KCert) &&
		a.Hash != b.Hash && e.Spec.VoteType == a.Kind
}

// HonestClass names the root cause by which an evidence assembled from an HONEST corpus
// passes the cryptographic gate ("" if it does not pass).
func (e *EvInfo) HonestClass() string {
	if !e.PassesGate || !e.CorpusHonest() {
		return ""
	}
	hashes := map[int]bool{}
	allNext := true
	for _, p := range e.Pairs {
		hashes[p.Hash] = true
		if p.Kind != KNext {
			allNext = false
		}
	}
	switch {
	case len(hashes) == 1:
		return "dup-pair-evidence"
	case allNext:
		return "next-index-evidence"
	default:
		return "cross-kind-evidence"
	}
}

// EncodeSlashData encodes evidences the way slashing() fills header.SlashData.
func EncodeSlashData(evs []staking.Evidence) []byte {
	if len(evs) == 0 {
		return nil
	}
	b, err := rlp.EncodeToBytes(evs)
	if err != nil {
		panic("stakechain: slash data: " + err.Error())
	}
	return b
}

// PenaltyAmount is floor(token * fraction / 100), the configured upper bound of a double-sign penalty.
func PenaltyAmount(token *big.Int) *big.Int {
	yp := Params()
	x := new(big.Int).Mul(token, new(big.Int).SetUint64(yp.PenaltyFractionForDoubleSign))
	return x.Div(x, big.NewInt(100))
}

var _ = params.YOU
