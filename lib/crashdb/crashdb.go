// Package crashdb is the crash model of the /verif checks (DESIGN.md §2.6).
//
// LogDB wraps a youdb.MemDatabase, implements the full youdb.Database interface and
// records every mutation in the order it was applied: one Entry per Put, one per Delete
// and ONE per Batch.Write (a batch is atomic). "The disk after a crash" is a base
// snapshot plus the first k entries of the log, materialised into a fresh MemDatabase;
// everything a component kept in memory is lost because the restarted component is
// created fresh on the materialised copy.
package crashdb

import (
	"bytes"
	"sort"
	"sync"

	"github.com/youchainhq/go-youchain/youdb"
)

// Op is one key mutation.
type Op struct {
	Del bool
	Key []byte
	Val []byte
}

// Entry is one atomic unit of the write log: a single Put/Delete or a whole batch.
type Entry struct {
	Batch bool
	Ops   []Op
}

// Snapshot is an immutable copy of the database content.
type Snapshot map[string][]byte

// LogDB is a logging in-memory database. All methods are safe for concurrent use; the
// log order is the order in which mutations were applied to the store (the log mutex is
// held across "apply to the MemDatabase" and "append to the log").
type LogDB struct {
	mem *youdb.MemDatabase
	mu  sync.Mutex
	log []Entry
	rec bool
}

var _ youdb.Database = (*LogDB)(nil)

// New returns an empty LogDB that is not yet recording.
func New() *LogDB { return Wrap(youdb.NewMemDatabase()) }

// Wrap returns a LogDB on top of an existing MemDatabase (not recording).
func Wrap(mem *youdb.MemDatabase) *LogDB { return &LogDB{mem: mem} }

// Mem returns the wrapped store.
func (db *LogDB) Mem() *youdb.MemDatabase { return db.mem }

func cp(b []byte) []byte {
	c := make([]byte, len(b))
	copy(c, b)
	return c
}

// StartLog clears the log and starts recording.
func (db *LogDB) StartLog() {
	db.mu.Lock()
	db.log, db.rec = nil, true
	db.mu.Unlock()
}

// StopLog stops recording and returns the recorded entries.
func (db *LogDB) StopLog() []Entry {
	db.mu.Lock()
	defer db.mu.Unlock()
	l := db.log
	db.log, db.rec = nil, false
	return l
}

// LogSince returns the entries recorded at positions >= mark (recording continues).
func (db *LogDB) LogSince(mark int) []Entry {
	db.mu.Lock()
	defer db.mu.Unlock()
	if mark > len(db.log) {
		mark = len(db.log)
	}
	out := make([]Entry, len(db.log)-mark)
	copy(out, db.log[mark:])
	return out
}

// LogLen returns the number of entries recorded so far.
func (db *LogDB) LogLen() int {
	db.mu.Lock()
	defer db.mu.Unlock()
	return len(db.log)
}

// Snapshot copies the current content.
func (db *LogDB) Snapshot() Snapshot {
	db.mu.Lock()
	defer db.mu.Unlock()
	return SnapshotOf(db.mem)
}

// SnapshotOf copies the content of a MemDatabase.
func SnapshotOf(mem *youdb.MemDatabase) Snapshot {
	keys := mem.Keys()
	s := make(Snapshot, len(keys))
	for _, k := range keys {
		if v, err := mem.Get(k); err == nil {
			s[string(k)] = v
		}
	}
	return s
}

func (db *LogDB) Put(key, value []byte) error {
	db.mu.Lock()
	defer db.mu.Unlock()
	if err := db.mem.Put(key, value); err != nil {
		return err
	}
	if db.rec {
		db.log = append(db.log, Entry{Ops: []Op{{Key: cp(key), Val: cp(value)}}})
	}
	return nil
}

func (db *LogDB) Delete(key []byte) error {
	db.mu.Lock()
	defer db.mu.Unlock()
	if err := db.mem.Delete(key); err != nil {
		return err
	}
	if db.rec {
		db.log = append(db.log, Entry{Ops: []Op{{Del: true, Key: cp(key)}}})
	}
	return nil
}

func (db *LogDB) Has(key []byte) (bool, error)   { return db.mem.Has(key) }
func (db *LogDB) Get(key []byte) ([]byte, error) { return db.mem.Get(key) }
func (db *LogDB) Close()                         {}
func (db *LogDB) NewBatch() youdb.Batch          { return &batch{db: db} }

// Len returns the number of keys.
func (db *LogDB) Len() int { return db.mem.Len() }

type batch struct {
	db   *LogDB
	ops  []Op
	size int
}

func (b *batch) Put(key, value []byte) error {
	b.ops = append(b.ops, Op{Key: cp(key), Val: cp(value)})
	b.size += len(value)
	return nil
}

func (b *batch) Delete(key []byte) error {
	b.ops = append(b.ops, Op{Del: true, Key: cp(key)})
	b.size++
	return nil
}

func (b *batch) ValueSize() int { return b.size }

// Write applies the batch atomically (through a MemDatabase batch) and records it as ONE
// log entry. An empty batch changes nothing and is not recorded (it would only duplicate
// a crash point).
func (b *batch) Write() error {
	if len(b.ops) == 0 {
		return nil
	}
	mb := b.db.mem.NewBatch()
	for _, op := range b.ops {
		if op.Del {
			mb.Delete(op.Key)
		} else {
			mb.Put(op.Key, op.Val)
		}
	}
	b.db.mu.Lock()
	defer b.db.mu.Unlock()
	if err := mb.Write(); err != nil {
		return err
	}
	if b.db.rec {
		ops := make([]Op, len(b.ops))
		copy(ops, b.ops)
		b.db.log = append(b.db.log, Entry{Batch: true, Ops: ops})
	}
	return nil
}

func (b *batch) Reset() {
	b.ops = nil // a written slice may be referenced by the log
	b.size = 0
}

// Materialise returns base + entries applied in order as a fresh MemDatabase: the disk a
// process would find after being killed right after the last of entries.
func Materialise(base Snapshot, entries []Entry) *youdb.MemDatabase {
	m := youdb.NewMemDatabaseWithCap(len(base) + 16)
	for k, v := range base {
		m.Put([]byte(k), v)
	}
	Apply(m, entries)
	return m
}

// Apply applies entries in order to db.
func Apply(db youdb.Database, entries []Entry) {
	for _, e := range entries {
		for _, op := range e.Ops {
			if op.Del {
				db.Delete(op.Key)
			} else {
				db.Put(op.Key, op.Val)
			}
		}
	}
}

// Equal reports whether two snapshots hold the same content.
func Equal(a, b Snapshot) bool {
	if len(a) != len(b) {
		return false
	}
	for k, v := range a {
		w, ok := b[k]
		if !ok || !bytes.Equal(v, w) {
			return false
		}
	}
	return true
}

// Diff lists the keys (sorted) whose value differs between a and b.
func Diff(a, b Snapshot) []string {
	seen := map[string]bool{}
	var out []string
	for k, v := range a {
		if w, ok := b[k]; !ok || !bytes.Equal(v, w) {
			out = append(out, k)
		}
		seen[k] = true
	}
	for k := range b {
		if !seen[k] {
			out = append(out, k)
		}
	}
	sort.Strings(out)
	return out
}

// Normalise returns e with a deterministic op order when that is semantically safe (no
// key occurs twice): sorted by key. Entries that touch a key more than once keep their
// order.
func (e Entry) Normalise() Entry {
	seen := make(map[string]bool, len(e.Ops))
	for _, op := range e.Ops {
		if seen[string(op.Key)] {
			return e
		}
		seen[string(op.Key)] = true
	}
	ops := make([]Op, len(e.Ops))
	copy(ops, e.Ops)
	sort.Slice(ops, func(i, j int) bool { return bytes.Compare(ops[i].Key, ops[j].Key) < 0 })
	return Entry{Batch: e.Batch, Ops: ops}
}
