package uconkit

import (
	"fmt"
	"math/big"
	"sync"

	"github.com/youchainhq/go-youchain/common"
	"github.com/youchainhq/go-youchain/core/rawdb"
	"github.com/youchainhq/go-youchain/core/state"
	"github.com/youchainhq/go-youchain/core/types"
	"github.com/youchainhq/go-youchain/crypto"
	"github.com/youchainhq/go-youchain/params"
)

// FakeChain is a thin consensus.ChainReader: a table of synthetic headers (every
// number below Head carries a seed derived from its number and the validator root
// of Set) over the REAL state database holding the validator set. It places a node
// at any round - in particular at certificate round 32768 - without a real chain.
type FakeChain struct {
	mu      sync.Mutex
	Set     *Set
	YP      *params.YouParams
	Head    uint64 // number of the current head header
	SeedTag byte
	// CertValRoot, if set, is the validator root of header 0 (the certificate look-back
	// of round 32768), so the certificate committee can differ from the stake look-back set
	CertValRoot *common.Hash
	// HeaderVersion, if non-zero, is the CurrVersion recorded in the synthetic headers
	// (the key under which YP is installed in params.Versions); default YP.Version
	HeaderVersion params.YouVersion
	// DefaultRoot, if set, is the validator root of every synthetic header that has no entry in
	// RootOf (a decoy set: the look-back a verifier has to use is then the only header with the
	// real set's root)
	DefaultRoot *common.Hash
	RootOf      map[uint64]common.Hash
	// VersionOf, if set, gives the CurrVersion recorded in synthetic header n, and VersionForRound
	// then follows the chain as the real one does: the parameters in force for round r are those of the
	// version recorded in header max(r-8, 0) (params.Versions must hold them)
	VersionOf func(n uint64) params.YouVersion
	// Pinned headers are returned for their number even above Head (a block the node already
	// holds as canonical at the height that is being verified)
	Pinned  map[uint64]*types.Header
	headers map[uint64]*types.Header
	Updated       []*types.Header
}

// NewFakeChain creates the table; the current head is number head.
func NewFakeChain(set *Set, yp *params.YouParams, head uint64, seedTag byte) *FakeChain {
	return &FakeChain{Set: set, YP: yp, Head: head, SeedTag: seedTag, headers: map[uint64]*types.Header{}}
}

// SeedOf is the seed recorded in the synthetic header of that number.
func (c *FakeChain) SeedOf(number uint64) common.Hash {
	return crypto.Keccak256Hash([]byte("verif-seed"), []byte{c.SeedTag}, new(big.Int).SetUint64(number).Bytes())
}

func (c *FakeChain) header(n uint64) *types.Header {
	c.mu.Lock()
	defer c.mu.Unlock()
	if h, ok := c.Pinned[n]; ok {
		return h
	}
	if n > c.Head {
		return nil
	}
	if h, ok := c.headers[n]; ok {
		return h
	}
	root := c.Set.ValRoot
	if c.DefaultRoot != nil {
		root = *c.DefaultRoot
	}
	if r, ok := c.RootOf[n]; ok {
		root = r
	}
	if n == 0 && c.CertValRoot != nil {
		root = *c.CertValRoot
	}
	ver := c.YP.Version
	if c.HeaderVersion != 0 {
		ver = c.HeaderVersion
	}
	if c.VersionOf != nil {
		ver = c.VersionOf(n)
	}
	h := SeedHeader(n, c.SeedOf(n), root, c.YP.CertValThreshold, ver)
	h.Time = 1000 + n
	c.headers[n] = h
	return h
}

// Pin makes h the header the chain returns for its number (nil removes the pin).
func (c *FakeChain) Pin(n uint64, h *types.Header) {
	c.mu.Lock()
	defer c.mu.Unlock()
	if c.Pinned == nil {
		c.Pinned = map[uint64]*types.Header{}
	}
	if h == nil {
		delete(c.Pinned, n)
		return
	}
	c.Pinned[n] = h
}

const protocolRoundBack = 8 // core.protocolRoundBack

func (c *FakeChain) VersionForRound(round uint64) (*params.YouParams, error) {
	return c.VersionForRoundWithParents(round, nil)
}

func (c *FakeChain) VersionForRoundWithParents(round uint64, parents []*types.Header) (*params.YouParams, error) {
	if c.VersionOf == nil {
		return c.YP, nil
	}
	var lb uint64
	if round > protocolRoundBack {
		lb = round - protocolRoundBack
	}
	var h *types.Header
	for _, p := range parents {
		if p.Number.Uint64() == lb {
			h = p
		}
	}
	if h == nil {
		h = c.header(lb)
	}
	if h == nil {
		return nil, fmt.Errorf("fakechain: no header %d for the version look-back of round %d", lb, round)
	}
	yp, ok := params.Versions[h.CurrVersion]
	if !ok {
		return nil, fmt.Errorf("fakechain: version %d unknown", h.CurrVersion)
	}
	return &yp, nil
}
func (c *FakeChain) CurrentHeader() *types.Header                  { return c.header(c.Head) }
func (c *FakeChain) GetHeaderByNumber(number uint64) *types.Header { return c.header(number) }
func (c *FakeChain) GetHeader(hash common.Hash, number uint64) *types.Header {
	if h := c.header(number); h != nil && h.Hash() == hash {
		return h
	}
	return nil
}
func (c *FakeChain) GetHeaderByHash(hash common.Hash) *types.Header {
	c.mu.Lock()
	defer c.mu.Unlock()
	for _, h := range c.Pinned {
		if h.Hash() == hash {
			return types.CopyHeader(h)
		}
	}
	for _, h := range c.headers {
		if h.Hash() == hash {
			return h
		}
	}
	return nil
}
func (c *FakeChain) GetBlock(hash common.Hash, number uint64) *types.Block { return nil }
func (c *FakeChain) GetBlockByNumber(number uint64) *types.Block {
	if h := c.header(number); h != nil {
		return types.NewBlockWithHeader(h)
	}
	return nil
}
func (c *FakeChain) GetVldReader(valRoot common.Hash) (state.ValidatorReader, error) {
	return state.NewVldReader(valRoot, c.Set.DB, false)
}
func (c *FakeChain) GetAcReader() rawdb.AcReader { return nil }
func (c *FakeChain) UpdateExistedHeader(header *types.Header) {
	c.mu.Lock()
	c.Updated = append(c.Updated, header)
	if p, ok := c.Pinned[header.Number.Uint64()]; ok && p.Hash() == header.Hash() {
		c.Pinned[header.Number.Uint64()] = header // (votes are not part of the hash)
	}
	c.mu.Unlock()
}
