// Package uconkit builds validator sets, look-back readers and honestly (or
// adversarially) voted ucon headers from outside the consensus package, with ground
// truth about every proof and signature it produced.
package uconkit

import (
	"crypto/ecdsa"
	"fmt"
	"math/big"
	"sync"

	"github.com/youchainhq/go-youchain/bls"
	"github.com/youchainhq/go-youchain/common"
	"github.com/youchainhq/go-youchain/consensus/ucon"
	"github.com/youchainhq/go-youchain/core/state"
	"github.com/youchainhq/go-youchain/core/types"
	"github.com/youchainhq/go-youchain/crypto"
	"github.com/youchainhq/go-youchain/crypto/vrf"
	secp256k1VRF "github.com/youchainhq/go-youchain/crypto/vrf/secp256k1"
	"github.com/youchainhq/go-youchain/params"
	"github.com/youchainhq/go-youchain/rlp"
	"github.com/youchainhq/go-youchain/youdb"
)

// Key is a deterministic validator identity from the pool.
type Key struct {
	N       int
	Ecdsa   *ecdsa.PrivateKey
	Addr    common.Address
	MainPub []byte // compressed secp256k1 public key
	Vrf     vrf.PrivateKey
	BlsSk   bls.SecretKey
	BlsPub  []byte
}

var (
	poolMu sync.Mutex
	pool   = map[int]*Key{}
	BlsMgr = bls.NewBlsManager()
)

// PoolKey returns the n-th deterministic identity (created on first use).
func PoolKey(n int) *Key {
	poolMu.Lock()
	defer poolMu.Unlock()
	if k, ok := pool[n]; ok {
		return k
	}
	d := crypto.Keccak256([]byte(fmt.Sprintf("verif-ecdsa-key-%d", n)))
	ek, err := crypto.ToECDSA(d)
	if err != nil {
		panic(err)
	}
	vk, err := secp256k1VRF.NewVRFSigner(ek)
	if err != nil {
		panic(err)
	}
	b := crypto.Keccak256([]byte(fmt.Sprintf("verif-bls-key-%d", n)))
	b[0] &= 0x3f // below the BLS12-381 group order
	bsk, err := BlsMgr.DecSecretKey(b)
	if err != nil {
		panic(err)
	}
	bpk, err := bsk.PubKey()
	if err != nil {
		panic(err)
	}
	cp := bpk.Compress()
	k := &Key{N: n, Ecdsa: ek, Addr: crypto.PubkeyToAddress(ek.PublicKey), MainPub: crypto.CompressPubkey(&ek.PublicKey),
		Vrf: vk, BlsSk: bsk, BlsPub: cp.Bytes()}
	pool[n] = k
	return k
}

// ValSpec describes one validator of a generated set.
type ValSpec struct {
	Key    int    `json:"key"`    // pool key number
	Role   uint8  `json:"role"`   // 1 chancellor, 2 senator, 3 house
	Online bool   `json:"online"` //
	Stake  uint64 `json:"stake"`  // stake units
}

// IsChamber reports chamber membership of the role.
func (v ValSpec) IsChamber() bool {
	return v.Role == uint8(params.RoleChancellor) || v.Role == uint8(params.RoleSenator)
}

// Set is a validator set committed to a validator trie.
type Set struct {
	Specs   []ValSpec
	DB      state.Database
	ValRoot common.Hash
	Reader  state.ValidatorReader
	// Index[i] is the VoterIdx of Specs[i] in Reader.GetValidators()
	Index []int
	// TotalChamber is the online chamber stake (what sortition divides by)
	TotalChamber uint64
}

// BuildSet commits the validators to a fresh state and opens a reader on it.
func BuildSet(specs []ValSpec) (*Set, error) {
	return BuildSetOn(state.NewDatabase(youdb.NewMemDatabase()), specs)
}

// BuildSetOn commits the validators as a state of their own into an existing state
// database (several look-back sets of one chain live in one database).
func BuildSetOn(db state.Database, specs []ValSpec) (*Set, error) {
	st, err := state.New(common.Hash{}, common.Hash{}, common.Hash{}, db)
	if err != nil {
		return nil, err
	}
	s := &Set{Specs: specs, DB: db}
	for i, v := range specs {
		k := PoolKey(v.Key)
		status := params.ValidatorOffline
		if v.Online {
			status = params.ValidatorOnline
		}
		token := new(big.Int).Mul(new(big.Int).SetUint64(v.Stake), params.StakeUint)
		nv := st.CreateValidator(fmt.Sprintf("v%d", i), k.Addr, k.Addr, params.ValidatorRole(v.Role), k.MainPub, k.BlsPub,
			token, new(big.Int).SetUint64(v.Stake), 0, 0, 0, status)
		if nv == nil {
			return nil, fmt.Errorf("CreateValidator %d failed (duplicate key?)", i)
		}
		if v.Online && v.IsChamber() {
			s.TotalChamber += v.Stake
		}
	}
	_, valRoot, _, err := st.Commit(true)
	if err != nil {
		return nil, err
	}
	if err := db.TrieDB().Commit(valRoot, false); err != nil {
		return nil, err
	}
	s.ValRoot = valRoot
	s.Reader, err = state.NewVldReader(valRoot, db, true)
	if err != nil {
		return nil, err
	}
	vs := s.Reader.GetValidators()
	for _, v := range specs {
		idx, ok := vs.GetIndex(PoolKey(v.Key).Addr)
		if !ok {
			return nil, fmt.Errorf("validator not indexed")
		}
		s.Index = append(s.Index, idx)
	}
	return s, nil
}

// SeedHeader builds a look-back header whose consensus data carries the given seed
// (and, for certificate look-backs, the given CertValThreshold and version).
func SeedHeader(number uint64, seed common.Hash, valRoot common.Hash, certTh uint64, version params.YouVersion) *types.Header {
	cd := &ucon.BlockConsensusData{Round: new(big.Int).SetUint64(number), RoundIndex: 1, Seed: seed,
		SortitionProof: []byte{}, Signature: []byte{}, CertValThreshold: certTh}
	b, err := rlp.EncodeToBytes(cd)
	if err != nil {
		panic(err)
	}
	return &types.Header{Number: new(big.Int).SetUint64(number), ValRoot: valRoot, Consensus: b, MixDigest: types.UConMixHash,
		Subsidy: new(big.Int), GasRewards: new(big.Int), CurrVersion: version, Extra: []byte{}, SlashData: []byte{},
		ChtRoot: []byte{}, BltRoot: []byte{}, Validator: []byte{}, Signature: []byte{}, Certificate: []byte{}}
}

// Credential is a genuinely computed sortition result.
type Credential struct {
	Value common.Hash // VRF output
	Proof []byte
	J     uint32 // seats as computed by the code under test (VrfSortition)
}

// Sortition evaluates the real VrfSortition for a pool key.
func Sortition(key int, seed common.Hash, index, step uint32, threshold, stake, total uint64) Credential {
	k := PoolKey(key)
	v, p, j := ucon.VrfSortition(k.Vrf, seed, index, step, threshold, new(big.Int).SetUint64(stake), new(big.Int).SetUint64(total))
	return Credential{Value: v, Proof: p, J: j}
}

// VotePayload is what a vote signs: blockHash || round bytes || big-endian uint32 round index.
func VotePayload(hash common.Hash, round uint64, index uint32) []byte {
	p := append([]byte{}, hash.Bytes()...)
	p = append(p, new(big.Int).SetUint64(round).Bytes()...)
	return append(p, byte(index>>24), byte(index>>16), byte(index>>8), byte(index))
}

// BlsSign signs a payload with a pool key's BLS key.
func BlsSign(key int, payload []byte) bls.Signature {
	return PoolKey(key).BlsSk.Sign(payload)
}

// Aggregate sums BLS signatures; an empty list gives the empty byte string (as PackVotes does).
func Aggregate(sigs []bls.Signature) []byte {
	if len(sigs) == 0 {
		return []byte{}
	}
	a, err := BlsMgr.Aggregate(sigs)
	if err != nil {
		panic(err)
	}
	c := a.Compress()
	return c.Bytes()
}

// NewHeader returns a header skeleton for round `number` on top of parent.
func NewHeader(parent *types.Header, number uint64) *types.Header {
	h := &types.Header{Number: new(big.Int).SetUint64(number), MixDigest: types.UConMixHash,
		Subsidy: new(big.Int), GasRewards: new(big.Int), GasLimit: 8000000, Extra: []byte{}, SlashData: []byte{},
		ChtRoot: []byte{}, BltRoot: []byte{}, Validator: []byte{}, Signature: []byte{}, Certificate: []byte{}}
	if parent != nil {
		h.ParentHash = parent.Hash()
		h.Time = parent.Time + 1
		h.CurrVersion = parent.CurrVersion
	}
	return h
}

// SetConsensus signs the consensus data with the proposer's key and stores it in the header.
func SetConsensus(h *types.Header, cd *ucon.BlockConsensusData, proposerKey int) error {
	cd.Signature = nil
	if err := cd.SetSignature(PoolKey(proposerKey).Ecdsa); err != nil {
		return err
	}
	b, err := ucon.PrepareConsensusData(h, cd)
	if err != nil {
		return err
	}
	h.Consensus = b
	return nil
}

// SealHeader signs the header hash with the proposer's key.
func SealHeader(h *types.Header, proposerKey int) error {
	sig, err := crypto.Sign(h.Hash().Bytes(), PoolKey(proposerKey).Ecdsa)
	if err != nil {
		return err
	}
	h.Signature = sig
	return nil
}
