package uconkit

import (
	"math/big"
)

const qPrec = 320

// Quantile returns the smallest j in [0, w] with BinomialCDF(j; w, num/den) >= t,
// computed with 320-bit floating point by the term recurrence (independent of the
// float64/gonum implementation under test). t is given as a big.Float in [0, 1].
func Quantile(w uint64, num, den uint64, t *big.Float) uint64 {
	if t.Sign() <= 0 {
		return 0
	}
	if num >= den { // p = 1: all mass at w
		return w
	}
	p := new(big.Float).SetPrec(qPrec).Quo(new(big.Float).SetPrec(qPrec).SetUint64(num), new(big.Float).SetPrec(qPrec).SetUint64(den))
	one := new(big.Float).SetPrec(qPrec).SetInt64(1)
	q := new(big.Float).SetPrec(qPrec).Sub(one, p)
	ratio := new(big.Float).SetPrec(qPrec).Quo(p, q)
	term := powFloat(q, w)
	cdf := new(big.Float).SetPrec(qPrec).Set(term)
	for j := uint64(0); j < w; j++ {
		if cdf.Cmp(t) >= 0 {
			return j
		}
		// term_{j+1} = term_j * (w-j)/(j+1) * p/q
		term.Mul(term, new(big.Float).SetPrec(qPrec).SetUint64(w-j))
		term.Quo(term, new(big.Float).SetPrec(qPrec).SetUint64(j+1))
		term.Mul(term, ratio)
		cdf.Add(cdf, term)
	}
	return w
}

func powFloat(b *big.Float, e uint64) *big.Float {
	r := new(big.Float).SetPrec(qPrec).SetInt64(1)
	x := new(big.Float).SetPrec(qPrec).Set(b)
	for e > 0 {
		if e&1 == 1 {
			r.Mul(r, x)
		}
		x.Mul(x, x)
		e >>= 1
	}
	return r
}

// HashFraction reads a VRF output as a fraction of 2^256.
func HashFraction(h [32]byte) *big.Float {
	n := new(big.Int).SetBytes(h[:])
	d := new(big.Int).Lsh(big.NewInt(1), 256)
	return new(big.Float).SetPrec(qPrec).Quo(new(big.Float).SetPrec(qPrec).SetInt(n), new(big.Float).SetPrec(qPrec).SetInt(d))
}

// QuantileBand returns [lo, hi]: the reference quantile at t-tau and t+tau with
// tau = 1e-9*(1+t). The implementation under test works in float64, so any j in the
// band is accepted as "the" quantile; lo == hi in all but a tiny fraction of cases.
func QuantileBand(w uint64, num, den uint64, h [32]byte) (lo, hi uint64) {
	t := HashFraction(h)
	tau := new(big.Float).SetPrec(qPrec).Mul(new(big.Float).SetPrec(qPrec).SetFloat64(1e-9), new(big.Float).SetPrec(qPrec).Add(t, new(big.Float).SetInt64(1)))
	tl := new(big.Float).SetPrec(qPrec).Sub(t, tau)
	th := new(big.Float).SetPrec(qPrec).Add(t, tau)
	lo = Quantile(w, num, den, tl)
	if th.Cmp(new(big.Float).SetInt64(1)) >= 0 {
		hi = w
	} else {
		hi = Quantile(w, num, den, th)
	}
	return
}
