package uconkit

import (
	"runtime"
	"sync"
	"time"

	"github.com/youchainhq/go-youchain/event"
)

// Collector is the only subscriber of a rig's event mux. The consensus components
// announce votes and commits with AsyncPost (one goroutine per event); the harness
// starts none of the package's loops, so after a step it waits until the number of
// goroutines is back to the idle baseline (every AsyncPost goroutine has delivered
// and exited). Events of one step are treated as a set.
type Collector struct {
	mu     sync.Mutex
	events []interface{}
	sub    *event.TypeMuxSubscription
	base   int
	done   chan struct{}
}

// NewCollector subscribes to the given event types and measures the idle baseline.
func NewCollector(mux *event.TypeMux, types ...interface{}) *Collector {
	c := &Collector{done: make(chan struct{})}
	before := runtime.NumGoroutine()
	c.sub = mux.Subscribe(types...)
	go func() {
		defer close(c.done)
		for ev := range c.sub.Chan() {
			if ev == nil {
				return
			}
			c.mu.Lock()
			c.events = append(c.events, ev.Data)
			c.mu.Unlock()
		}
	}()
	c.base = before + 1
	return c
}

// Quiesce waits for all in-flight AsyncPost goroutines; false = timed out (the case
// must then be discarded as inconclusive, never reported as a violation).
func (c *Collector) Quiesce() bool {
	deadline := time.Now().Add(20 * time.Second)
	stable := 0
	for {
		if runtime.NumGoroutine() <= c.base {
			stable++
			if stable >= 2 {
				return true
			}
		} else {
			stable = 0
		}
		if time.Now().After(deadline) {
			return false
		}
		runtime.Gosched()
		time.Sleep(20 * time.Microsecond)
	}
}

// Drain returns and clears the collected events.
func (c *Collector) Drain() []interface{} {
	c.mu.Lock()
	defer c.mu.Unlock()
	out := c.events
	c.events = nil
	return out
}

// Close unsubscribes and waits for the drain goroutine to exit.
func (c *Collector) Close() {
	c.sub.Unsubscribe()
	<-c.done
}
