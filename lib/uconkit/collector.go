package uconkit

import (
	"runtime"
	"time"

	"github.com/youchainhq/go-youchain/event"
)

// Collector is the only subscriber of a rig's event mux. The consensus components
// announce votes and commits with AsyncPost (one goroutine per event, blocking on an
// unbuffered delivery to the subscriber); the harness starts none of the package's
// loops. Quiesce receives on the harness goroutine itself until the number of
// goroutines is back to the idle baseline, i.e. every AsyncPost goroutine has handed
// its event over (and it has been recorded, since recording happens on this same
// goroutine) and exited. Events of one step are treated as a set.
type Collector struct {
	events []interface{}
	sub    *event.TypeMuxSubscription
	base   int
}

// NewCollector subscribes to the given event types and measures the idle baseline.
func NewCollector(mux *event.TypeMux, types ...interface{}) *Collector {
	c := &Collector{}
	c.sub = mux.Subscribe(types...)
	// the baseline is the smallest goroutine count seen while nothing is in flight
	c.base = runtime.NumGoroutine()
	for i := 0; i < 5; i++ {
		runtime.Gosched()
		if n := runtime.NumGoroutine(); n < c.base {
			c.base = n
		}
	}
	return c
}

// Quiesce waits for all in-flight AsyncPost goroutines; false = timed out (the case
// must then be discarded as inconclusive, never reported as a violation).
func (c *Collector) Quiesce() bool {
	deadline := time.Now().Add(30 * time.Second)
	stable := 0
	for {
		select {
		case ev, ok := <-c.sub.Chan():
			if ok && ev != nil {
				c.events = append(c.events, ev.Data)
			}
			stable = 0
			continue
		default:
		}
		if runtime.NumGoroutine() <= c.base {
			stable++
			if stable >= 3 {
				return true
			}
		} else {
			stable = 0
		}
		if time.Now().After(deadline) {
			return false
		}
		runtime.Gosched()
		if stable == 0 {
			time.Sleep(10 * time.Microsecond)
		}
	}
}

// Drain returns and clears the collected events.
func (c *Collector) Drain() []interface{} {
	out := c.events
	c.events = nil
	return out
}

// Close unsubscribes.
func (c *Collector) Close() {
	c.sub.Unsubscribe()
}
