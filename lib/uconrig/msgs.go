// Package uconrig holds the harness pieces that need the consensus/ucon export shim
// (hooks/consensus/ucon/zz_verif_rig.go); checks importing it must list that hook.
package uconrig

import (
	"fmt"
	"math/big"

	"github.com/youchainhq/go-youchain/common"
	"github.com/youchainhq/go-youchain/consensus/ucon"
	"github.com/youchainhq/go-youchain/core/types"
	"github.com/youchainhq/go-youchain/rlp"
	uk "verif/lib/uconkit"
)

// ---------------------------------------------------------------------------------
// wire messages

// SignedMessage wraps a payload as MessageHandler.sendMsg does, signed by a pool key.
func SignedMessage(key int, code uint8, payload []byte) []byte {
	b, err := ucon.VerifSignMessage(uk.PoolKey(key).Ecdsa, code, payload)
	if err != nil {
		panic(err)
	}
	return b
}

// VoteMessage builds the wire message of a vote.
func VoteMessage(msgKey int, code uint8, round uint64, index uint32, hash, priority common.Hash, vote *ucon.SingleVote) []byte {
	p := &ucon.BlockHashWithVotes{Priority: priority, BlockHash: hash, Round: new(big.Int).SetUint64(round), RoundIndex: index, Vote: vote, Timestamp: 1}
	b, err := rlp.EncodeToBytes(p)
	if err != nil {
		panic(err)
	}
	return SignedMessage(msgKey, code, b)
}

// PriorityMessage builds the wire message announcing a proposal's priority.
func PriorityMessage(msgKey int, cd *ucon.BlockConsensusData, blockHash, parentHash common.Hash) []byte {
	p := ucon.ConsensusCommon{Round: cd.Round, RoundIndex: cd.RoundIndex, Step: 1, Priority: cd.Priority, SortitionProof: cd.SortitionProof,
		SubUsers: cd.SubUsers, BlockHash: blockHash, ParentHash: parentHash, Timestamp: 1}
	b, err := rlp.EncodeToBytes(p)
	if err != nil {
		panic(err)
	}
	return SignedMessage(msgKey, ucon.VerifMsgPriority, b)
}

// BlockMessage builds the wire message carrying a proposed block.
func BlockMessage(msgKey int, block *types.Block) []byte {
	b, err := rlp.EncodeToBytes(block)
	if err != nil {
		panic(fmt.Sprintf("encode block: %v", err))
	}
	return SignedMessage(msgKey, ucon.VerifMsgBlock, b)
}
