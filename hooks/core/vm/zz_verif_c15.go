// +build verif

package vm

// Add-only export shim for the C15 check (never replaces code).
//
// The interpreter recycles big.Int objects through a process-wide pool of integer
// pools (poolOfIntPools). Whatever a previous execution left in those pools is handed
// to the next one, so without a reset the behaviour of a (defective) opcode could depend
// on which cases ran earlier in the same process and a saved case would not replay in
// isolation. VerifResetIntPools drops all pooled integer pools; the next Run then starts
// from a fresh, empty pool exactly as the first execution of a process does.
func VerifResetIntPools() {
	poolOfIntPools.lock.Lock()
	poolOfIntPools.pools = make([]*intPool, 0, poolDefaultCap)
	poolOfIntPools.lock.Unlock()
}
