// +build verif

package core

import "sync/atomic"

// VerifIndexersActive reports whether the event loops of both chain indexers that
// NewBlockChain starts have begun to run. ChainIndexer.Close only tears an event loop down
// when its `active` flag is already set, so a harness that stops a chain immediately after
// creating it must wait for this to avoid leaking the two goroutines (add-only accessor).
func (bc *BlockChain) VerifIndexersActive() bool {
	return atomic.LoadUint32(&bc.chtIndexer.active) != 0 && atomic.LoadUint32(&bc.bltIndexer.active) != 0
}
