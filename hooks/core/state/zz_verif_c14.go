// +build verif

package state

import (
	"github.com/youchainhq/go-youchain/common"
	"github.com/youchainhq/go-youchain/rlp"
)

// Add-only export shim for the C14 check (RLP round trip of unexported state records).

// VerifC14Pending wraps the unexported pendingRelationship record of the staking trie.
type VerifC14Pending struct{ p *pendingRelationship }

// VerifC14NewPending returns an empty record, exactly as loadPendingRelationship creates it before decoding.
func VerifC14NewPending() *VerifC14Pending {
	return &VerifC14Pending{p: newPendingRelationship()}
}

// Add calls the real pendingRelationship.Add.
func (w *VerifC14Pending) Add(d, v common.Address) bool { return w.p.Add(d, v) }

// Encode encodes the record exactly as updateStakingTrie does.
func (w *VerifC14Pending) Encode() ([]byte, error) { return rlp.EncodeToBytes(&w.p) }

// Decode decodes into the record exactly as loadPendingRelationship does.
func (w *VerifC14Pending) Decode(b []byte) error { return rlp.DecodeBytes(b, w.p) }

// Pairs returns the (delegator, validator) pairs in stored order.
func (w *VerifC14Pending) Pairs() [][2]common.Address {
	out := make([][2]common.Address, 0, len(w.p.r))
	for _, bi := range w.p.r {
		d, v := bi.Split()
		out = append(out, [2]common.Address{d, v})
	}
	return out
}

// Counts returns the pending counters of an address.
func (w *VerifC14Pending) Counts(a common.Address) (uint16, uint16) {
	return w.p.DelegatorPendingCount(a), w.p.ValidatorPendingCount(a)
}

// VerifC14EncodeStakingRecord encodes a Record through the unexported stakingRecord wrapper, as updateStakingTrie does.
func VerifC14EncodeStakingRecord(r Record) ([]byte, error) {
	return rlp.EncodeToBytes(&stakingRecord{record: r})
}
