// +build verif

// Add-only export shim for the C20 check (transaction pool view consistency).
// Nothing here replaces pool code: every function either reads pool fields under the
// pool's own lock or calls the pool's own unexported request machinery.

package core

import (
	"math/big"
	"time"

	"github.com/youchainhq/go-youchain/common"
	"github.com/youchainhq/go-youchain/core/types"
)

// VerifResetSync performs a head change exactly as loop() does on a ChainHeadEvent
// (requestReset(oldHead, newHead)) and additionally waits for the returned done channel,
// so the reset (reinjection, promotion, demotion, truncation) has completed on return.
func (pool *TxPool) VerifResetSync(oldHead, newHead *types.Header) {
	<-pool.requestReset(oldHead, newHead)
}

// VerifResetAsync is loop()'s reaction to a ChainHeadEvent without waiting for the run.
func (pool *TxPool) VerifResetAsync(oldHead, newHead *types.Header) {
	pool.requestReset(oldHead, newHead)
}

// VerifQuiesce waits until every promotion / reset request submitted before the call
// has been executed: it files an empty promotion request and waits for the run that
// serves it (runs are strictly sequential in scheduleReorgLoop).
func (pool *TxPool) VerifQuiesce() {
	<-pool.requestPromoteExecutables(newAccountSet(pool.signer))
}

// VerifMergedRun reproduces, deterministically, the run scheduleReorgLoop launches when a
// submission's promotion request and a head-change request are both pending (they arrived
// while the previous run was still active): the batch is added under the pool lock exactly
// as addTxs does, then ONE runReorg executes the reset and the promotion together. The
// pool's own loop is idle while the harness calls this; runReorg takes pool.mu itself.
func (pool *TxPool) VerifMergedRun(txs []*types.Transaction, local bool, oldHead, newHead *types.Header) []error {
	for _, tx := range txs {
		types.Sender(pool.signer, tx)
	}
	pool.mu.Lock()
	errs, dirty := pool.addTxsLocked(txs, local)
	pool.mu.Unlock()

	done := make(chan struct{})
	pool.runReorg(done, &txpoolResetRequest{oldHead, newHead}, dirty, make(map[common.Address]*txSortedMap))
	<-done
	return errs
}

// VerifIndexCounts returns the sizes of the lookup index and of the price heap, and the
// number of price-heap entries the pool itself accounts as stale.
func (pool *TxPool) VerifIndexCounts() (all, priced, stales int) {
	pool.mu.Lock()
	defer pool.mu.Unlock()
	return pool.all.Count(), len(*pool.priced.items), pool.priced.stales
}

// VerifPoolSnapshot is one atomic view (taken under pool.mu) of all overlapping indexes.
type VerifPoolSnapshot struct {
	Pending    map[common.Address]types.Transactions
	Queued     map[common.Address]types.Transactions
	All        []common.Hash // keys of the lookup index
	Priced     int           // entries in the price heap
	Stales     int           // stale counter of the price heap
	PricedLive int           // price-heap entries whose hash is in the lookup index
	// PricedDistinctLive counts distinct pooled hashes that have at least one heap entry.
	PricedDistinctLive int
	PoolNonce          map[common.Address]uint64
	StateNonce         map[common.Address]uint64
	StateBalance       map[common.Address]*big.Int
	MaxGas             uint64
	GasPrice           *big.Int
	Locals             []common.Address
	HasBeat            map[common.Address]bool
	PendingStrict      map[common.Address]bool
}

// VerifSnapshot copies the pool's views for the given accounts under one lock acquisition.
func (pool *TxPool) VerifSnapshot(addrs []common.Address) *VerifPoolSnapshot {
	pool.mu.Lock()
	defer pool.mu.Unlock()

	s := &VerifPoolSnapshot{
		Pending:       make(map[common.Address]types.Transactions),
		Queued:        make(map[common.Address]types.Transactions),
		PoolNonce:     make(map[common.Address]uint64),
		StateNonce:    make(map[common.Address]uint64),
		StateBalance:  make(map[common.Address]*big.Int),
		HasBeat:       make(map[common.Address]bool),
		PendingStrict: make(map[common.Address]bool),
		MaxGas:        pool.currentMaxGas,
		GasPrice:      new(big.Int).Set(pool.gasPrice),
	}
	for addr, list := range pool.pending {
		s.Pending[addr] = list.Flatten()
		s.PendingStrict[addr] = list.strict
	}
	for addr, list := range pool.queue {
		s.Queued[addr] = list.Flatten()
	}
	pool.all.Range(func(hash common.Hash, tx *types.Transaction) bool {
		s.All = append(s.All, hash)
		return true
	})
	s.Priced, s.Stales = len(*pool.priced.items), pool.priced.stales
	seen := make(map[common.Hash]struct{})
	for _, tx := range *pool.priced.items {
		if pool.all.Get(tx.Hash()) != nil {
			s.PricedLive++
			seen[tx.Hash()] = struct{}{}
		}
	}
	s.PricedDistinctLive = len(seen)
	for _, a := range addrs {
		s.PoolNonce[a] = pool.pendingNonces.get(a)
		s.StateNonce[a] = pool.currentState.GetNonce(a)
		s.StateBalance[a] = new(big.Int).Set(pool.currentState.GetBalance(a))
		_, s.HasBeat[a] = pool.beats[a]
	}
	s.Locals = append(s.Locals, pool.locals.flatten()...)
	return s
}

// VerifItems lists the transactions of every pending / queued list straight from the
// nonce->transaction maps, i.e. NOT through txSortedMap.Flatten and its lazily built sort
// cache, in no particular order. It is the cache-independent reference the concurrent
// reader checks compare the exported views with.
func (pool *TxPool) VerifItems() (map[common.Address]types.Transactions, map[common.Address]types.Transactions) {
	pool.mu.Lock()
	defer pool.mu.Unlock()

	pending := make(map[common.Address]types.Transactions)
	for addr, list := range pool.pending {
		txs := make(types.Transactions, 0, len(list.txs.items))
		for _, tx := range list.txs.items {
			txs = append(txs, tx)
		}
		pending[addr] = txs
	}
	queued := make(map[common.Address]types.Transactions)
	for addr, list := range pool.queue {
		txs := make(types.Transactions, 0, len(list.txs.items))
		for _, tx := range list.txs.items {
			txs = append(txs, tx)
		}
		queued[addr] = txs
	}
	return pending, queued
}

// VerifSetIntervals sets the package-level ticker intervals read once by loop() when a
// pool starts, and returns the previous values. Call it only while no pool is running.
func VerifSetIntervals(evict, report time.Duration) (time.Duration, time.Duration) {
	oe, or := evictionInterval, statsReportInterval
	if evict > 0 {
		evictionInterval = evict
	}
	if report > 0 {
		statsReportInterval = report
	}
	return oe, or
}
