// +build verif

package prque

// VerifItem is a read-only view of one queued element.
type VerifItem struct {
	Value    interface{}
	Priority int64
}

// VerifItems lists the queue's current elements in heap-array order without
// modifying the queue (add-only export shim of the C18 check).
func (p *Prque) VerifItems() []VerifItem {
	out := make([]VerifItem, 0, p.cont.size)
	for i := 0; i < p.cont.size; i++ {
		it := p.cont.blocks[i/blockSize][i%blockSize]
		out = append(out, VerifItem{Value: it.value, Priority: it.priority})
	}
	return out
}
