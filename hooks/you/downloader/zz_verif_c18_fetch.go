// +build verif

package downloader

// Add-only export shim of the C18 check, part 2: the real Downloader.fetchParts loop
// for block bodies on a hand-assembled Downloader (peer set, queue, channels, dropPeer
// callback - what fetchParts touches), wired exactly as fetchBodies wires it, except:
//   - the expiry allowance comes from the harness (everything / nothing expires)
//     instead of requestTTL(), so expiry does not depend on the wall clock;
//   - every fetch assignment, delivery outcome and scheduling pass is recorded;
//   - after the real SetBodiesIdle the measured (wall clock dependent) throughput is
//     overwritten with the peer's scripted rate, so peer order and allowances are a
//     function of the schedule;
//   - the body and wake channels are unbuffered (a harness send returns only when the loop
//     has taken the event) and harness actions that touch shared state (schedule headers,
//     peer joins / leaves, import, "everything has timed out") are queued with Do and
//     executed by the loop goroutine itself at the start of its next scheduling pass
//     (inside the expire callback), so they are serialised with the loop.
// fetchParts itself, the queue, the peer set and the peer connections are the real code.

import (
	"math/big"
	"sync"
	"sync/atomic"
	"time"

	"github.com/youchainhq/go-youchain/common"
	"github.com/youchainhq/go-youchain/core/types"
	"github.com/youchainhq/go-youchain/logging"
)

// VerifFetchReq is one fetch assignment (what went out on the wire to the peer).
type VerifFetchReq struct {
	PeerID  string
	Headers []*types.Header
}

// VerifDelivery is the outcome of one packet that reached the queue.
type VerifDelivery struct {
	PeerID   string
	Items    int
	Accepted int
	Err      error
}

// VerifFetcher drives the real fetchParts loop.
type VerifFetcher struct {
	d *Downloader

	mu         sync.Mutex
	passes     int
	expireAll  bool
	reqs       []VerifFetchReq
	deliveries []VerifDelivery
	rates      map[string]float64
	ranks      map[string]int
	actions    []verifAction

	started  bool
	exited   chan struct{}
	err      error
	panicVal interface{}
}

type verifAction struct {
	fn   func()
	done chan struct{}
}

// Do queues fn for execution by the loop goroutine at the start of its next scheduling
// pass, triggers passes with wake events until it ran and returns true; false if the
// loop exited before running it.
func (f *VerifFetcher) Do(fn func()) bool {
	a := verifAction{fn: fn, done: make(chan struct{})}
	f.mu.Lock()
	f.actions = append(f.actions, a)
	f.mu.Unlock()
	for {
		select {
		case <-a.done:
			return true
		default:
		}
		if !f.Wake(true) {
			select {
			case <-a.done:
				return true
			default:
				return false
			}
		}
	}
}

// VerifNewFetcher assembles the Downloader parts fetchParts needs.
func VerifNewFetcher(cacheItems int, offset uint64) *VerifFetcher {
	q := VerifNewQueue(cacheItems).q
	d := &Downloader{
		peers:         newPeerSet(),
		queue:         q,
		quitCh:        make(chan struct{}),
		cancelCh:      make(chan struct{}),
		cancelPeer:    "master", // no scripted peer is the master peer
		rttEstimate:   uint64(rttMaxEstimate),
		rttConfidence: uint64(1000000),
		bodyWakeCh:    make(chan bool),
		bodyCh:        make(chan dataPack),
	}
	d.dropPeer = func(id string) { d.UnregisterPeer(id) }
	q.Reset()
	q.Prepare(offset, FullSync)
	return &VerifFetcher{d: d, rates: map[string]float64{}, ranks: map[string]int{}, exited: make(chan struct{})}
}

// Queue gives access to the real queue (Schedule, Results, Snapshot).
func (f *VerifFetcher) Queue() *VerifQueue { return &VerifQueue{q: f.d.queue} }

func (f *VerifFetcher) pin(p *peerConnection, success bool) {
	f.mu.Lock()
	rate, rank := f.rates[p.id], f.ranks[p.id]
	f.mu.Unlock()
	thr := float64(rank+1) * 1e-9 // failed / new: minimal allowance, distinct per peer
	if success {
		thr = rate + float64(rank+1)*1e-9
	}
	p.lock.Lock()
	p.blockThroughput = thr
	p.lock.Unlock()
}

// Start runs fetchParts (as fetchBodies does) in its own goroutine.
func (f *VerifFetcher) Start() {
	if f.started {
		return
	}
	f.started = true
	d := f.d
	var (
		deliver = func(packet dataPack) (int, error) {
			pack := packet.(*bodyPack)
			n, err := d.queue.DeliverBodies(pack.peerID, pack.transactions)
			f.mu.Lock()
			f.deliveries = append(f.deliveries, VerifDelivery{PeerID: pack.peerID, Items: len(pack.transactions), Accepted: n, Err: err})
			f.mu.Unlock()
			return n, err
		}
		expire = func() map[string]int {
			f.mu.Lock()
			f.passes++
			acts := f.actions
			f.actions = nil
			f.mu.Unlock()
			for _, a := range acts {
				a.fn()
				close(a.done)
			}
			f.mu.Lock()
			all := f.expireAll
			f.expireAll = false
			f.mu.Unlock()
			if all {
				return d.queue.ExpireBodies(-time.Hour)
			}
			return d.queue.ExpireBodies(1000 * time.Hour)
		}
		fetch = func(p *peerConnection, req *fetchRequest) error {
			f.mu.Lock()
			f.reqs = append(f.reqs, VerifFetchReq{PeerID: p.id, Headers: append([]*types.Header(nil), req.Headers...)})
			f.mu.Unlock()
			return p.FetchBodies(req)
		}
		capacity = func(p *peerConnection) int { return p.BlockCapacity(d.requestRTT()) }
		setIdle  = func(p *peerConnection, accepted int) {
			p.SetBodiesIdle(accepted)
			f.pin(p, accepted > 0)
		}
	)
	go func() {
		defer close(f.exited)
		defer d.cancel() // as spawnSync does once a fetcher returned: pending deliveries abort
		defer func() {
			if r := recover(); r != nil {
				f.panicVal = r
			}
		}()
		f.err = d.fetchParts(d.bodyCh, deliver, d.bodyWakeCh, expire,
			d.queue.PendingBlocks, d.queue.InFlightBlocks, d.queue.ShouldThrottleBlocks, d.queue.ReserveBodies,
			nil, fetch, d.queue.CancelBodies, capacity, d.peers.BodyIdlePeers, setIdle, "bodies")
	}()
}

// Join registers a peer connection (as RegisterPeer does) with a scripted rate
// (blocks per second once it has delivered) and a rank breaking throughput ties.
func (f *VerifFetcher) Join(id string, rate float64, rank int, initialRate float64) bool {
	p := newPeerConnection(id, verifBodyNullPeer{}, logging.New("peer", id))
	f.mu.Lock()
	f.rates[id], f.ranks[id] = rate, rank
	f.mu.Unlock()
	if err := f.d.peers.Register(p); err != nil {
		return false
	}
	p.lock.Lock()
	p.blockThroughput = initialRate + float64(rank+1)*1e-9
	p.lock.Unlock()
	return true
}

// Leave is the real UnregisterPeer.
func (f *VerifFetcher) Leave(id string) bool { return f.d.UnregisterPeer(id) == nil }

// Registered reports whether the id is in the peer set; busy is its body-fetch flag.
func (f *VerifFetcher) Registered(id string) (registered bool, busy bool) {
	p := f.d.peers.Peer(id)
	if p == nil {
		return false, false
	}
	return true, atomic.LoadInt32(&p.blockIdle) != 0
}

// Wake sends on the body wake channel (true: new tasks, false: header processing
// finished). It returns false if the loop has exited.
func (f *VerifFetcher) Wake(cont bool) bool {
	select {
	case f.d.bodyWakeCh <- cont:
		return true
	case <-f.exited:
		return false
	}
}

// Deliver is the real Downloader.DeliverBodies; false if the loop has exited.
func (f *VerifFetcher) Deliver(id string, txs [][]*types.Transaction) bool {
	return f.d.DeliverBodies(id, txs) == nil
}

// ExpireAllOnce makes the next scheduling pass expire every request in flight.
func (f *VerifFetcher) ExpireAllOnce() {
	f.mu.Lock()
	f.expireAll = true
	f.mu.Unlock()
}

// Passes counts scheduling passes (update events) started so far.
func (f *VerifFetcher) Passes() int {
	f.mu.Lock()
	defer f.mu.Unlock()
	return f.passes
}

// TakeRequests drains the recorded fetch assignments.
func (f *VerifFetcher) TakeRequests() []VerifFetchReq {
	f.mu.Lock()
	defer f.mu.Unlock()
	out := f.reqs
	f.reqs = nil
	return out
}

// TakeDeliveries drains the recorded delivery outcomes.
func (f *VerifFetcher) TakeDeliveries() []VerifDelivery {
	f.mu.Lock()
	defer f.mu.Unlock()
	out := f.deliveries
	f.deliveries = nil
	return out
}

// Exited reports whether fetchParts returned, with its error / panic value.
func (f *VerifFetcher) Exited() (bool, error, interface{}) {
	select {
	case <-f.exited:
		return true, f.err, f.panicVal
	default:
		return false, nil, nil
	}
}

// Stop cancels the sync and waits for the loop goroutine.
func (f *VerifFetcher) Stop() {
	f.d.cancel()
	if f.started {
		<-f.exited
	}
}

// verifBodyNullPeer is a network peer that never answers by itself; the harness does.
type verifBodyNullPeer struct{}

func (verifBodyNullPeer) Head() (common.Hash, *big.Int) { return common.Hash{}, new(big.Int) }
func (verifBodyNullPeer) Origin() *big.Int              { return new(big.Int) }
func (verifBodyNullPeer) RequestHeadersByHash(common.Hash, int, int, bool, bool) error {
	return nil
}
func (verifBodyNullPeer) RequestHeadersByNumber(uint64, int, int, bool, bool) error { return nil }
func (verifBodyNullPeer) RequestBodies([]common.Hash) error                         { return nil }
func (verifBodyNullPeer) RequestReceipts([]common.Hash) error                       { return nil }
func (verifBodyNullPeer) RequestNodeData(types.TrieKind, []common.Hash) error       { return nil }
