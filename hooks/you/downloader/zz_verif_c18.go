// +build verif

package downloader

// Add-only export shim of the C18 check (block download scheduler). It wraps the
// real unexported queue and peerConnection; it never replaces code.

import (
	"time"

	"github.com/youchainhq/go-youchain/common"
	"github.com/youchainhq/go-youchain/core/types"
	"github.com/youchainhq/go-youchain/logging"
)

// Error identities the harness has to recognise.
var (
	VerifErrInvalidChain     = errInvalidChain
	VerifErrInvalidBody      = errInvalidBody
	VerifErrStaleDelivery    = errStaleDelivery
	VerifErrNoFetchesPending = errNoFetchesPending
)

// VerifSetBlockCacheMemory sets the package variable blockCacheMemory (the memory
// allowance of the result cache, read by the queue on every call) and returns a
// function that restores the previous value. n <= 0 leaves it unchanged.
func VerifSetBlockCacheMemory(n int) func() {
	old := blockCacheMemory
	if n > 0 {
		blockCacheMemory = n
	}
	return func() { blockCacheMemory = old }
}

// VerifMaxResultsProcess is the batch limit of Results.
func VerifMaxResultsProcess() int { return maxResultsProcess }

// VerifPeer is a real peerConnection without a network peer behind it.
type VerifPeer struct{ p *peerConnection }

// VerifNewPeer creates a peer connection exactly as RegisterPeer does, with a nil
// network peer (the queue never talks to it).
func VerifNewPeer(id string) *VerifPeer {
	return &VerifPeer{p: newPeerConnection(id, nil, logging.New("peer", id))}
}

func (p *VerifPeer) ID() string                          { return p.p.id }
func (p *VerifPeer) Lacks(h common.Hash) bool            { return p.p.Lacks(h) }
func (p *VerifPeer) Reset()                              { p.p.Reset() }
func (p *VerifPeer) BlockCapacity(rtt time.Duration) int { return p.p.BlockCapacity(rtt) }

// VerifRequest is a handle on a real fetchRequest.
type VerifRequest struct{ r *fetchRequest }

// PeerID is the id of the peer the request was assigned to.
func (r *VerifRequest) PeerID() string { return r.r.Peer.id }

// Headers returns the headers still owned by the request (delivered ones are nil-ed by
// the queue and skipped here).
func (r *VerifRequest) Headers() []*types.Header {
	out := make([]*types.Header, 0, len(r.r.Headers))
	for _, h := range r.r.Headers {
		if h != nil {
			out = append(out, h)
		}
	}
	return out
}

// VerifResult is a read-only copy of a fetchResult.
type VerifResult struct {
	Pending      int
	Hash         common.Hash
	Header       *types.Header
	Transactions types.Transactions
	Receipts     types.Receipts
}

func verifResult(r *fetchResult) VerifResult {
	return VerifResult{Pending: r.Pending, Hash: r.Hash, Header: r.Header, Transactions: r.Transactions, Receipts: r.Receipts}
}

// VerifQueue wraps the real download queue.
type VerifQueue struct{ q *queue }

// VerifNewQueue creates a real queue. cacheItems > 0 sizes the result cache (the
// package variable blockCacheItems is read by newQueue only; it is restored before
// returning, so nothing leaks between queues).
func VerifNewQueue(cacheItems int) *VerifQueue {
	old := blockCacheItems
	if cacheItems > 0 {
		blockCacheItems = cacheItems
	}
	q := newQueue()
	blockCacheItems = old
	return &VerifQueue{q: q}
}

// Reset is the real queue.Reset, keeping the result cache size of this queue.
func (v *VerifQueue) Reset() {
	old := blockCacheItems
	blockCacheItems = len(v.q.resultCache)
	v.q.Reset()
	blockCacheItems = old
}

func (v *VerifQueue) Prepare(offset uint64) { v.q.Prepare(offset, FullSync) }
func (v *VerifQueue) Close()                { v.q.Close() }

func (v *VerifQueue) Schedule(headers []*types.Header, from uint64) []*types.Header {
	return v.q.Schedule(headers, from)
}

func (v *VerifQueue) ReserveBodies(p *VerifPeer, count int) (*VerifRequest, bool, error) {
	r, progress, err := v.q.ReserveBodies(p.p, count)
	if r == nil {
		return nil, progress, err
	}
	return &VerifRequest{r: r}, progress, err
}

func (v *VerifQueue) DeliverBodies(id string, txLists [][]*types.Transaction) (int, error) {
	return v.q.DeliverBodies(id, txLists)
}

func (v *VerifQueue) CancelBodies(r *VerifRequest) { v.q.CancelBodies(r.r) }
func (v *VerifQueue) ExpireBodies(timeout time.Duration) map[string]int {
	return v.q.ExpireBodies(timeout)
}
func (v *VerifQueue) Revoke(id string)           { v.q.Revoke(id) }
func (v *VerifQueue) Idle() bool                 { return v.q.Idle() }
func (v *VerifQueue) PendingBlocks() int         { return v.q.PendingBlocks() }
func (v *VerifQueue) InFlightBlocks() bool       { return v.q.InFlightBlocks() }
func (v *VerifQueue) ShouldThrottleBlocks() bool { return v.q.ShouldThrottleBlocks() }
func (v *VerifQueue) PendingReceipts() int       { return v.q.PendingReceipts() }
func (v *VerifQueue) InFlightReceipts() bool     { return v.q.InFlightReceipts() }

// Results is the non-blocking Results(false).
func (v *VerifQueue) Results() []VerifResult {
	rs := v.q.Results(false)
	out := make([]VerifResult, 0, len(rs))
	for _, r := range rs {
		out = append(out, verifResult(r))
	}
	return out
}

// VerifSlot is one allocated slot of the result cache.
type VerifSlot struct {
	Index  int
	Result VerifResult
}

// VerifSnapshot is a read-only copy of the body-download bookkeeping.
type VerifSnapshot struct {
	TaskPool     []*types.Header            // blockTaskPool values
	TaskPoolKeys []common.Hash              // blockTaskPool keys (same order)
	TaskQueue    []*types.Header            // blockTaskQueue contents (heap order)
	TaskPrio     []int64                    // their priorities
	Pend         map[string][]*types.Header // blockPendPool: peer id -> request headers (nil entries kept)
	PendPeer     map[string]string          // blockPendPool: key -> request.Peer.id
	Done         []common.Hash              // blockDonePool keys
	Slots        []VerifSlot                // non-nil result cache entries
	CacheLen     int
	ResultOffset uint64
	ReceiptTasks int // receiptTaskPool + receiptTaskQueue + receiptPendPool + receiptDonePool sizes (must stay 0 in full sync)
	HeaderHead   common.Hash
}

// Snapshot copies the bookkeeping under the queue lock without modifying it.
func (v *VerifQueue) Snapshot() VerifSnapshot {
	q := v.q
	q.lock.Lock()
	defer q.lock.Unlock()
	s := VerifSnapshot{Pend: map[string][]*types.Header{}, PendPeer: map[string]string{}, CacheLen: len(q.resultCache),
		ResultOffset: q.resultOffset, HeaderHead: q.headerHead}
	for k, h := range q.blockTaskPool {
		s.TaskPoolKeys = append(s.TaskPoolKeys, k)
		s.TaskPool = append(s.TaskPool, h)
	}
	for _, it := range q.blockTaskQueue.VerifItems() {
		h, _ := it.Value.(*types.Header)
		s.TaskQueue = append(s.TaskQueue, h)
		s.TaskPrio = append(s.TaskPrio, it.Priority)
	}
	for id, r := range q.blockPendPool {
		s.Pend[id] = append([]*types.Header(nil), r.Headers...)
		if r.Peer != nil {
			s.PendPeer[id] = r.Peer.id
		}
	}
	for k := range q.blockDonePool {
		s.Done = append(s.Done, k)
	}
	for i, r := range q.resultCache {
		if r != nil {
			s.Slots = append(s.Slots, VerifSlot{Index: i, Result: verifResult(r)})
		}
	}
	s.ReceiptTasks = len(q.receiptTaskPool) + q.receiptTaskQueue.Size() + len(q.receiptPendPool) + len(q.receiptDonePool)
	return s
}
