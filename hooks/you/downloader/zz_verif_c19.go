// +build verif

package downloader

// Add-only export shim of the C19 check (state / trie sync). It wires a real trieSync
// (you/downloader/triesync.go) without a running Downloader: no goroutines, channels or
// timers; the harness calls the loop's building blocks (fillTasks, process,
// processNodeData, commit) synchronously.

import (
	"math/big"
	"sort"
	"time"

	"github.com/youchainhq/go-youchain/common"
	"github.com/youchainhq/go-youchain/core/types"
	"github.com/youchainhq/go-youchain/logging"
	"github.com/youchainhq/go-youchain/trie"
	"github.com/youchainhq/go-youchain/youdb"
)

// VerifTrieSync wraps a real trieSync.
type VerifTrieSync struct {
	s      *trieSync
	peers  map[string]*peerConnection
	active map[string]*trieReq
}

// VerifNewTrieSync creates the trieSync exactly as syncState / commonSyncTrie do
// (newTrieSync over the scheduler and its backing database) with a Downloader value
// that only carries a peer set holding the given peers.
func VerifNewTrieSync(kind types.TrieKind, db youdb.Database, sched *trie.Sync, peerIDs []string) *VerifTrieSync {
	d := &Downloader{peers: newPeerSet()}
	v := &VerifTrieSync{peers: map[string]*peerConnection{}, active: map[string]*trieReq{}}
	for _, id := range peerIDs {
		p := newPeerConnection(id, nil, logging.New("peer", id))
		d.peers.Register(p)
		v.peers[id] = p
	}
	v.s = newTrieSync(d, kind, db, sched)
	return v
}

// ProcessNodeData is the real trieSync.processNodeData (responses are keyed by the
// keccak of the delivered blob).
func (v *VerifTrieSync) ProcessNodeData(blob []byte) (bool, common.Hash, error) {
	return v.s.processNodeData(blob)
}

// Commit is the real trieSync.commit.
func (v *VerifTrieSync) Commit(force bool) error { return v.s.commit(force) }

// Pending is the scheduler's Pending, as trieSync.loop reads it.
func (v *VerifTrieSync) Pending() int { return v.s.sched.Pending() }

// TasksLen is the size of the retry set.
func (v *VerifTrieSync) TasksLen() int { return len(v.s.tasks) }

// Tasks lists the retry set (sorted).
func (v *VerifTrieSync) Tasks() []common.Hash {
	out := make([]common.Hash, 0, len(v.s.tasks))
	for h := range v.s.tasks {
		out = append(out, h)
	}
	verifSortHashes(out)
	return out
}

func verifSortHashes(hs []common.Hash) {
	sort.Slice(hs, func(i, j int) bool {
		for k := 0; k < common.HashLength; k++ {
			if hs[i][k] != hs[j][k] {
				return hs[i][k] < hs[j][k]
			}
		}
		return false
	})
}

// FillTasks runs the real fillTasks(n, req) for the peer and records the request as
// active. n is raised to the size of the retry set so that the selection among the
// retry set does not depend on map iteration order (every eligible task is taken).
// It returns the requested hashes sorted, or nil if the peer is busy or nothing was
// assigned.
func (v *VerifTrieSync) FillTasks(n int, peerID string) []common.Hash {
	p := v.peers[peerID]
	if p == nil || v.active[peerID] != nil {
		return nil
	}
	if n < len(v.s.tasks) {
		n = len(v.s.tasks)
	}
	req := &trieReq{peer: p}
	v.s.fillTasks(n, req)
	if len(req.items) == 0 {
		return nil
	}
	v.active[peerID] = req
	out := append([]common.Hash(nil), req.items...)
	verifSortHashes(out)
	return out
}

// Active returns the hashes of the peer's active request (sorted), nil if none.
func (v *VerifTrieSync) Active(peerID string) []common.Hash {
	req := v.active[peerID]
	if req == nil {
		return nil
	}
	out := append([]common.Hash(nil), req.items...)
	verifSortHashes(out)
	return out
}

// Process finishes the peer's active request with the given response (nil = timed
// out, as runTrieSync leaves req.response nil) or as dropped, and runs the real
// trieSync.process on it.
func (v *VerifTrieSync) Process(peerID string, response [][]byte, dropped bool) (int, error) {
	req := v.active[peerID]
	if req == nil {
		return 0, nil
	}
	delete(v.active, peerID)
	req.response = response
	req.dropped = dropped
	return v.s.process(req)
}

// ---------------------------------------------------------------------------------
// the real trieSync.run()/loop() with the harness in the place of runTrieSync

// verifNullPeer is a network peer that never answers by itself; the harness answers.
type verifNullPeer struct{}

func (verifNullPeer) Head() (common.Hash, *big.Int)                                 { return common.Hash{}, new(big.Int) }
func (verifNullPeer) Origin() *big.Int                                              { return new(big.Int) }
func (verifNullPeer) RequestHeadersByHash(common.Hash, int, int, bool, bool) error  { return nil }
func (verifNullPeer) RequestHeadersByNumber(uint64, int, int, bool, bool) error     { return nil }
func (verifNullPeer) RequestBodies([]common.Hash) error                             { return nil }
func (verifNullPeer) RequestReceipts([]common.Hash) error                           { return nil }
func (verifNullPeer) RequestNodeData(kind types.TrieKind, hashes []common.Hash) error { return nil }

// VerifLoop runs the real trieSync.run() (loop + deferred final commit) in one
// goroutine; the harness plays runTrieSync: it takes the requests the loop tracks on
// Downloader.trackTrieReq and hands finished requests to trieSync.deliver.
type VerifLoop struct {
	s        *trieSync
	d        *Downloader
	pending  *trieReq
	exited   chan struct{}
	panicVal interface{}
}

// VerifStartLoop creates the sync as syncState/commonSyncTrie do and starts run().
func VerifStartLoop(kind types.TrieKind, db youdb.Database, sched *trie.Sync, peerID string) *VerifLoop {
	d := &Downloader{
		peers:         newPeerSet(),
		trackTrieReq:  make(chan *trieReq),
		cancelCh:      make(chan struct{}),
		rttEstimate:   uint64(rttMaxEstimate),
		rttConfidence: uint64(1000000),
	}
	d.dropPeer = func(id string) { d.peers.Unregister(id) }
	d.peers.Register(newPeerConnection(peerID, verifNullPeer{}, logging.New("peer", peerID)))
	l := &VerifLoop{s: newTrieSync(d, kind, db, sched), d: d, exited: make(chan struct{})}
	go func() {
		defer close(l.exited)
		defer func() {
			if r := recover(); r != nil {
				l.panicVal = r
			}
		}()
		l.s.run()
	}()
	return l
}

// Next waits for the next request of the loop ("request"), its end ("done"), a panic
// inside it ("panic") or the safety timeout ("timeout").
func (l *VerifLoop) Next(timeout time.Duration) ([]common.Hash, string) {
	t := time.NewTimer(timeout)
	defer t.Stop()
	select {
	case req := <-l.d.trackTrieReq:
		l.pending = req
		return append([]common.Hash(nil), req.items...), "request"
	case <-l.s.done:
		<-l.exited
		return nil, "done"
	case <-l.exited:
		if l.panicVal != nil {
			return nil, "panic"
		}
		return nil, "done"
	case <-t.C:
		return nil, "timeout"
	}
}

// Respond finishes the pending request with the response (nil = timed out).
func (l *VerifLoop) Respond(response [][]byte, timeout time.Duration) string {
	req := l.pending
	if req == nil {
		return "norequest"
	}
	l.pending = nil
	req.response = response
	t := time.NewTimer(timeout)
	defer t.Stop()
	select {
	case l.s.deliver <- req:
		return "ok"
	case <-l.exited:
		return "done"
	case <-t.C:
		return "timeout"
	}
}

// Cancel is trieSync.Cancel (without blocking for ever if the loop panicked).
func (l *VerifLoop) Cancel() {
	l.s.cancelOnce.Do(func() { close(l.s.cancel) })
	<-l.exited
}

// Err is what Wait() reports; valid after Next returned "done" or after Cancel.
func (l *VerifLoop) Err() error { return l.s.err }

// PanicValue is the value a panic inside the loop goroutine carried (nil if none).
func (l *VerifLoop) PanicValue() interface{} { return l.panicVal }
