// Replacement (through the build overlay, see check.json overlay_abs) for
// github.com/youchainhq/quic-go@v0.14.5/internal/handshake/unsafe.go, whose init() panics under go >= 1.21
// ("qtls.ConnectionState not compatible with tls.ConnectionState") and thereby keeps every test binary that
// links p2p (packages miner, node, you) from starting. No QUIC connection is ever opened by the checks.
package handshake

// Test-only shim (used through `go test -overlay`): the original init() panics on Go >= 1.21
// because crypto/tls.ConnectionState grew fields that the pinned qtls fork does not have.
// The demo never opens a QUIC connection, so the layout check is simply skipped.

import "reflect"

func structsEqual(a, b interface{}) bool {
	sa := reflect.ValueOf(a).Elem()
	sb := reflect.ValueOf(b).Elem()
	if sa.NumField() != sb.NumField() {
		return false
	}
	for i := 0; i < sa.NumField(); i++ {
		fa := sa.Type().Field(i)
		fb := sb.Type().Field(i)
		if !reflect.DeepEqual(fa.Index, fb.Index) || fa.Name != fb.Name || fa.Anonymous != fb.Anonymous || fa.Offset != fb.Offset || !reflect.DeepEqual(fa.Type, fb.Type) {
			return false
		}
	}
	return true
}
