// +build verif

package ucon

import (
	"math/big"

	"github.com/youchainhq/go-youchain/common"
)

// VerifChoose exposes the unexported seat-count function choose to the C04 check
// (add-only export shim, compiled only with the build tag `verif` through -overlay).
func VerifChoose(hash common.Hash, w *big.Int, p float64) int64 {
	return choose(hash, w, p)
}
