// +build verif

package ucon

// Add-only export shim for the /verif harness (C02, C03). It wires the real consensus
// components exactly as Server.StartMining does, but starts none of their goroutines
// (timer, event loops); the harness delivers context changes and messages synchronously.

import (
	"crypto/ecdsa"
	"math/big"
	"time"

	lru "github.com/hashicorp/golang-lru"
	"github.com/youchainhq/go-youchain/bls"
	"github.com/youchainhq/go-youchain/common"
	"github.com/youchainhq/go-youchain/consensus"
	"github.com/youchainhq/go-youchain/core/types"
	"github.com/youchainhq/go-youchain/crypto"
	secp256k1VRF "github.com/youchainhq/go-youchain/crypto/vrf/secp256k1"
	"github.com/youchainhq/go-youchain/event"
	"github.com/youchainhq/go-youchain/params"
	"github.com/youchainhq/go-youchain/youdb"
)

// VerifRig is a Server whose components are wired but not started.
type VerifRig struct {
	S   *Server
	Mux *event.TypeMux
}

// VerifNewRig builds the Server components as StartMining does (minus StartNewRound,
// timer and event loops) with the REAL Server callbacks.
func VerifNewRig(db youdb.Database, chain consensus.ChainReader, rawSk *ecdsa.PrivateKey, blsSk bls.SecretKey, yp *params.YouParams, round uint64) (*VerifRig, error) {
	s := &Server{db: db, blsMgr: bls.NewBlsManager()}
	s.blsVerifier = NewBlsVerifier(s.blsMgr)
	vrfSk, err := secp256k1VRF.NewVRFSigner(rawSk)
	if err != nil {
		return nil, err
	}
	s.mainAddress = crypto.PubkeyToAddress(rawSk.PublicKey)
	s.rawSk, s.vrfSk, s.blsSk = rawSk, vrfSk, blsSk
	mux := new(event.TypeMux)
	s.eventMux, s.chain = mux, chain
	s.quitChan = make(chan bool, 1)
	s.sortitionMgr = NewSortitionManager(s.vrfSk, s.getLookbackStakeInfo, s.getLookBackSeed, s.mainAddress)
	s.proposal = NewProposal(mux, s.verifyPriority, s.startVote)
	s.voter = NewVoter(s.db, s.rawSk, s.blsSk, mux, s.verifySortition,
		s.sortitionMgr.isValidator, s.proposal.blockhashWithMaxPriority,
		s.proposal.getBlockInCache, s.getLookbackStakeInfo, s.getLookbackValidatorsCount, s)
	s.blsVerifier = s.voter.blsMgr.Verifier
	s.msgHandler = NewMessageHandler(s.rawSk, mux, s.GetLookBackValidator,
		func(ReceivedMsgEvent) (error, bool) { return nil, true }, // the timer's address bookkeeping is not wired
		s.proposal.processPriorityMessage, s.proposal.processProposedBlockMsg, s.voter.processVoteMsg)
	s.vldReaderCache, _ = lru.New(stakingCacheLimit)
	s.currentRound = new(big.Int).SetUint64(round)
	s.roundIndex, s.nextIndex = 1, 1
	s.currRoundParams = yp
	s.voter.SetLookBackMgr(s)
	return &VerifRig{S: s, Mux: mux}, nil
}

// SetContext is what the event loops of the three components do on a ContextChangeEvent
// (posted by processStepEvent), delivered synchronously.
func (r *VerifRig) SetContext(round uint64, roundIndex uint32, step uint32) {
	s := r.S
	if s.currentRound == nil || s.currentRound.Uint64() != round {
		s.currentRound = new(big.Int).SetUint64(round)
		s.sortitionMgr.ClearStepView(s.currentRound)
	}
	s.roundIndex = roundIndex
	cert := round > 0 && round%params.ACoCHTFrequency == 0
	ev := ContextChangeEvent{Round: new(big.Int).SetUint64(round), RoundIndex: roundIndex, Step: step, Certificate: cert}
	s.msgHandler.updateContext(ev)
	s.proposal.updateContext(ev)
	s.voter.updateContext(ev)
}

// HandleMsg is the network entry point (MessageHandler.HandleMsg).
func (r *VerifRig) HandleMsg(data []byte) error {
	return r.S.msgHandler.HandleMsg(data, time.Now())
}

// VerifVerifyPriority / VerifVerifySortition are the Server callbacks the proposal and voter
// components are wired with (the live verification path of credentials).
func (r *VerifRig) VerifVerifyPriority(pub *ecdsa.PublicKey, data *ConsensusCommon) error {
	return r.S.verifyPriority(pub, data)
}

func (r *VerifRig) VerifVerifySortition(pub *ecdsa.PublicKey, data *SortitionData, lb params.LookBackType) error {
	return r.S.verifySortition(pub, data, lb)
}

// VerifIsProposer / VerifIsValidator / VerifClearStepViews: the node's own credential issuer
// (SortitionManager) as the proposal path (Prepare / isProposer) and the voter use it.
func (r *VerifRig) VerifIsProposer(round uint64, roundIndex uint32) (bool, *StepView) {
	return r.S.sortitionMgr.isProposer(new(big.Int).SetUint64(round), roundIndex)
}

func (r *VerifRig) VerifIsValidator(round uint64, roundIndex uint32, step uint32, lb params.LookBackType) (bool, *StepView) {
	return r.S.sortitionMgr.isValidator(new(big.Int).SetUint64(round), roundIndex, step, lb)
}

func (r *VerifRig) VerifClearStepViews(round uint64) {
	r.S.sortitionMgr.ClearStepView(new(big.Int).SetUint64(round))
}

// VerifUpdateBlockHeader is what Server.eventLoop does with an UpdateExistedHeaderEvent.
func (r *VerifRig) VerifUpdateBlockHeader(ev UpdateExistedHeaderEvent) { r.S.updateBlockHeader(ev) }

// VerifAssembleCommit is the body of Server.commit up to (not including) inserter.Insert.
func (r *VerifRig) VerifAssembleCommit(ev CommitEvent) (*types.Block, error) {
	s := r.S
	header := ev.Block.Header()
	ucv, err := s.voter.PackVotes(ev, params.LookBackPos)
	if err != nil {
		return nil, err
	}
	validators, err := ucv.ValidatorsToByte()
	if err != nil {
		return nil, err
	}
	header.Validator = validators
	ucc, err := s.voter.PackVotes(ev, params.LookBackCert)
	if err != nil {
		return nil, err
	}
	certs, err := ucc.ValidatorsToByte()
	if err != nil {
		return nil, err
	}
	header.Certificate = certs
	return ev.Block.WithSeal(header), nil
}

// ---------------------------------------------------------------------------------
// Voter-only rig (C02): the real Voter, VoteDB and VoteBLSMgr with harness-controlled
// function dependencies.

// VerifVoterDeps are the callbacks NewVoter takes (their types are unexported).
type VerifVoterDeps struct {
	VerifySortition func(pubKey *ecdsa.PublicKey, data *SortitionData, lbType params.LookBackType) error
	IsValidator     func(round *big.Int, roundIndex uint32, step uint32, lbType params.LookBackType) (bool, *StepView)
	MaxPriority     func(round *big.Int, roundIndex uint32) (common.Hash, common.Hash, bool)
	BlockInCache    func(blockHash common.Hash, priority common.Hash) *types.Block
	GetStake        func(round *big.Int, addr common.Address, isProposer bool, lbType params.LookBackType) (*big.Int, *big.Int, uint64, params.ValidatorKind, uint8, error)
	ValidatorsCount func(round *big.Int, kind params.ValidatorKind, lbType params.LookBackType) uint64
	Params          VerifParamsMgr
	LookBack        LookBackMgr
}

// VerifParamsMgr mirrors the unexported paramsManager interface.
type VerifParamsMgr interface {
	CurrentCaravelParams() *params.CaravelParams
	CertificateParams(round *big.Int) (*params.CaravelParams, error)
	CurrentYouParams() *params.YouParams
}

// VerifNewVoter constructs the real Voter on db without starting its event loop.
func VerifNewVoter(db youdb.Database, rawSk *ecdsa.PrivateKey, blsSk bls.SecretKey, mux *event.TypeMux, d VerifVoterDeps) *Voter {
	v := NewVoter(db, rawSk, blsSk, mux, d.VerifySortition, d.IsValidator, d.MaxPriority, d.BlockInCache, d.GetStake, d.ValidatorsCount, d.Params)
	v.SetLookBackMgr(d.LookBack)
	return v
}

// VerifUpdateContext delivers a ContextChangeEvent synchronously.
func (v *Voter) VerifUpdateContext(round uint64, roundIndex uint32, step uint32, cert bool) {
	v.updateContext(ContextChangeEvent{Round: new(big.Int).SetUint64(round), RoundIndex: roundIndex, Step: step, Certificate: cert})
}

// VerifProcessVote delivers a vote as MessageHandler.HandleMsg does after decoding it
// (status 2 = msgSame; 0 old round, 1 old index, 3 future, 4 invalid).
func (v *Voter) VerifProcessVote(vtype VoteType, sender common.Address, data *BlockHashWithVotes, status uint8) (error, bool) {
	msg := &CachedVotesMessage{VotesData: data, addr: sender, msg: &Message{Code: VoteTypeToMsgCode(vtype)}}
	return v.processVoteMsg(VoteMsgEvent{Msg: msg, VType: vtype}, MsgReceivedStatus(status))
}

// VerifMsgStatusSame etc. expose the receive-status constants.
const (
	VerifMsgOldRound      = uint8(msgOldRound)
	VerifMsgOldRoundIndex = uint8(msgOldRoundIndex)
	VerifMsgSame          = uint8(msgSame)
	VerifMsgFuture        = uint8(msgFuture)
)

// VerifSignMessage wraps a payload in a signed wire Message as sendMsg does.
func VerifSignMessage(rawSk *ecdsa.PrivateKey, code uint8, payload []byte) ([]byte, error) {
	m := Message{Code: MsgType(code), Payload: payload}
	sig, err := Sign(rawSk, append(append([]byte{}, payload...), int8ToBytes(code)...))
	if err != nil {
		return nil, err
	}
	m.Signature = sig
	return m.Encode()
}

// Message codes.
const (
	VerifMsgPriority    = uint8(msgPriorityProposal)
	VerifMsgBlock       = uint8(msgBlockProposal)
	VerifMsgPrevote     = uint8(msgPrevote)
	VerifMsgPrecommit   = uint8(msgPrecommit)
	VerifMsgNext        = uint8(msgNext)
	VerifMsgCertificate = uint8(msgCertificate)
)
