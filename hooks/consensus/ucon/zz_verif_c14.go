// +build verif

package ucon

import (
	"crypto/ecdsa"
	"fmt"
	"math/big"

	"github.com/youchainhq/go-youchain/bls"
	"github.com/youchainhq/go-youchain/common"
	"github.com/youchainhq/go-youchain/core/state"
	"github.com/youchainhq/go-youchain/crypto"
	secp256k1VRF "github.com/youchainhq/go-youchain/crypto/vrf/secp256k1"
	"github.com/youchainhq/go-youchain/event"
	"github.com/youchainhq/go-youchain/params"
	"github.com/youchainhq/go-youchain/youdb"
)

// Add-only export shim for the C14 check. It wires the real MessageHandler with the
// real Proposal and Voter message processors exactly as Server.StartMining does, but
// starts none of their goroutines and answers the chain look-ups (look-back validator
// set, seed, stake) from a fixed in-memory validator set instead of a blockchain.

// VerifC14Rig is a message-handling stack without event loops.
type VerifC14Rig struct {
	MH    *MessageHandler
	P     *Proposal
	V     *Voter
	Mux   *event.TypeMux
	Vals  *state.Validators
	Stat  *state.ValidatorsStat
	YP    *params.YouParams
	Seed  common.Hash
	Round *big.Int
}

type verifC14Reader struct{ r *VerifC14Rig }

func (v verifC14Reader) GetValidatorsStat() (*state.ValidatorsStat, error) { return v.r.Stat, nil }
func (v verifC14Reader) GetValidators() *state.Validators                 { return v.r.Vals }
func (v verifC14Reader) GetValidatorByMainAddr(a common.Address) *state.Validator {
	if i, ok := v.r.Vals.GetIndex(a); ok {
		val, _ := v.r.Vals.GetByIndex(i)
		return val
	}
	return nil
}

// paramsManager + LookBackMgr
func (r *VerifC14Rig) CurrentCaravelParams() *params.CaravelParams { return &r.YP.CaravelParams }
func (r *VerifC14Rig) CurrentYouParams() *params.YouParams         { return r.YP }
// mirrors Server.CertificateParams: only certificate rounds have certificate parameters
func (r *VerifC14Rig) CertificateParams(round *big.Int) (*params.CaravelParams, error) {
	if round.Uint64()%params.ACoCHTFrequency != 0 {
		return nil, fmt.Errorf("round %d is not a certificate round", round)
	}
	return &r.YP.CaravelParams, nil
}
func (r *VerifC14Rig) GetLookBackVldReader(cp *params.CaravelParams, num *big.Int, lbType params.LookBackType) (state.ValidatorReader, error) {
	return verifC14Reader{r}, nil
}

// mirrors Server.GetLookBackValidator with the fixed validator set
func (r *VerifC14Rig) getLookBackValidator(round *big.Int, addr common.Address, lbType params.LookBackType) (*state.Validator, bool) {
	if round == nil || round.Uint64() == 0 {
		return nil, false
	}
	v := verifC14Reader{r}.GetValidatorByMainAddr(addr)
	return v, false
}

// mirrors Server.getLookbackStakeInfo with the fixed validator set
func (r *VerifC14Rig) getLookbackStakeInfo(round *big.Int, addr common.Address, isProposer bool, lbType params.LookBackType) (*big.Int, *big.Int, uint64, params.ValidatorKind, uint8, error) {
	if round == nil || round.Uint64() == 0 {
		return big.NewInt(0), big.NewInt(0), uint64(0), params.KindValidator, params.ValidatorOffline, fmt.Errorf("invalid round. Round: %s", round)
	}
	v := verifC14Reader{r}.GetValidatorByMainAddr(addr)
	if v == nil {
		return big.NewInt(0), big.NewInt(0), uint64(0), params.KindValidator, params.ValidatorOffline, fmt.Errorf("GetValidatorByMainAddr failed")
	}
	if v.Status == params.ValidatorOffline {
		return big.NewInt(0), big.NewInt(0), uint64(0), params.KindValidator, v.Status, fmt.Errorf("Node is offline")
	}
	totalStake := r.Stat.GetStakeByKind(v.Kind())
	cp := r.CurrentCaravelParams()
	threshold := cp.ValidatorThreshold
	if isProposer {
		threshold = cp.ProposerThreshold
	} else if params.TurnToStakeType(lbType) == params.LookBackCertStake {
		threshold = cp.CertValThreshold
	}
	return v.Stake, totalStake, threshold, v.Kind(), v.Status, nil
}

func (r *VerifC14Rig) getLookbackValidatorsCount(round *big.Int, kind params.ValidatorKind, lbType params.LookBackType) uint64 {
	return r.Stat.GetCountOfKind(kind)
}

// mirrors Server.verifyPriority
func (r *VerifC14Rig) verifyPriority(pubkey *ecdsa.PublicKey, data *ConsensusCommon) error {
	pk, err := secp256k1VRF.NewVRFVerifier(pubkey)
	if err != nil {
		return fmt.Errorf("ucon: get pubKey failed: %v", err)
	}
	addr := crypto.PubkeyToAddress(*pubkey)
	stake, totalStake, _, _, _, err := r.getLookbackStakeInfo(data.Round, addr, true, params.LookBackStake)
	if err != nil {
		return err
	}
	isValid, err := VrfVerifyPriority(pk, r.Seed, data.RoundIndex, data.Step, data.SortitionProof,
		data.Priority, data.SubUsers, r.CurrentCaravelParams().ProposerThreshold, stake, totalStake)
	if err != nil || !isValid {
		return err
	}
	return nil
}

// mirrors Server.verifySortition
func (r *VerifC14Rig) verifySortition(pubKey *ecdsa.PublicKey, data *SortitionData, lbType params.LookBackType) error {
	pk, err := secp256k1VRF.NewVRFVerifier(pubKey)
	if err != nil {
		return err
	}
	addr := crypto.PubkeyToAddress(*pubKey)
	stake, totalStake, threshold, _, _, err := r.getLookbackStakeInfo(data.Round, addr, false, lbType)
	if err != nil {
		return err
	}
	isValid, err := VrfVerifySortition(pk, r.Seed, data.RoundIndex, data.Step, data.Proof, data.Votes, threshold, stake, totalStake)
	if err != nil || !isValid {
		if data.Round.Cmp(r.Round) < 0 {
			return nil
		}
		return err
	}
	return nil
}

// VerifC14NewRig builds the stack for the node key sk at (round, roundIndex), step UConStepStart.
func VerifC14NewRig(sk *ecdsa.PrivateKey, blsSk bls.SecretKey, vals []*state.Validator, yp *params.YouParams, seed common.Hash, round *big.Int, roundIndex uint32) *VerifC14Rig {
	r := &VerifC14Rig{Mux: new(event.TypeMux), YP: yp, Seed: seed, Round: round}
	r.Vals = state.NewValidators(vals)
	r.Stat = state.NewValidatorsStat()
	for _, v := range vals {
		r.Stat.GetByKind(params.KindValidator).AddVal(v)
		r.Stat.GetByKind(v.Kind()).AddVal(v)
		r.Stat.GetByRole(v.Role).AddVal(v)
	}
	r.P = NewProposal(r.Mux, r.verifyPriority, func(round *big.Int, roundIndex uint32) bool { return false })
	r.V = NewVoter(youdb.NewMemDatabase(), sk, blsSk, r.Mux, r.verifySortition,
		func(round *big.Int, roundIndex uint32, step uint32, lbType params.LookBackType) (bool, *StepView) { return false, nil },
		r.P.blockhashWithMaxPriority, r.P.getBlockInCache, r.getLookbackStakeInfo, r.getLookbackValidatorsCount, r)
	r.V.SetLookBackMgr(r)
	r.MH = NewMessageHandler(sk, r.Mux, r.getLookBackValidator,
		func(ev ReceivedMsgEvent) (error, bool) { return nil, true },
		r.P.processPriorityMessage, r.P.processProposedBlockMsg, r.V.processVoteMsg)
	// as Server.processStepEvent announces a step
	cert := round.Uint64() > 0 && round.Uint64()%params.ACoCHTFrequency == 0
	ev := ContextChangeEvent{Round: round, RoundIndex: roundIndex, Step: UConStepStart, Certificate: cert}
	r.P.updateContext(ev)
	r.V.updateContext(ev)
	r.MH.updateContext(ev)
	return r
}

// VerifC14VotePayload is the byte string a vote signature covers (Voter.signVote).
func VerifC14VotePayload(blockHash common.Hash, round *big.Int, roundIndex uint32) []byte {
	return append(blockHash.Bytes(), append(round.Bytes(), uint32ToBytes(roundIndex)...)...)
}

// VerifC14MsgSigPayload is the byte string the message envelope signature covers (MessageHandler.sendMsg).
func VerifC14MsgSigPayload(payload []byte, code uint8) []byte {
	return append(append([]byte(nil), payload...), int8ToBytes(code)...)
}

// Message codes.
const (
	VerifC14MsgPriority  = uint8(msgPriorityProposal)
	VerifC14MsgBlock     = uint8(msgBlockProposal)
	VerifC14MsgPrevote   = uint8(msgPrevote)
	VerifC14MsgPrecommit = uint8(msgPrecommit)
	VerifC14MsgNext      = uint8(msgNext)
	VerifC14MsgCert      = uint8(msgCertificate)
)
