// +build verif

package miner

import (
	"errors"

	"github.com/youchainhq/go-youchain/consensus"
	"github.com/youchainhq/go-youchain/core"
	"github.com/youchainhq/go-youchain/core/state"
	"github.com/youchainhq/go-youchain/core/types"
	"github.com/youchainhq/go-youchain/event"
)

// Add-only export shim for the /verif check C06.
//
// It constructs a real `worker` value WITHOUT starting its four loops
// (update/newWorkLoop/mainLoop/taskLoop) and without its subscriptions, and lets the
// harness run the real, unmodified commitNewWork (-> commitTransactions ->
// commitTransaction -> EndBlock(isSeal=true) -> commit -> FinalizeAndAssemble) and the
// real postSeal synchronously on the calling goroutine. The only difference from
// newWorker is that taskCh has capacity 1, so that commit() can hand over the assembled
// task without a taskLoop goroutine receiving it.

// VerifBackend is a miner.Backend made of an existing chain and a replaceable pool.
type VerifBackend struct {
	chain *core.BlockChain
	pool  *core.TxPool
}

func (b *VerifBackend) BlockChain() *core.BlockChain { return b.chain }
func (b *VerifBackend) TxPool() *core.TxPool         { return b.pool }

// VerifWorker wraps a real worker whose goroutines were never started.
type VerifWorker struct {
	w  *worker
	be *VerifBackend
}

// VerifTask is the task produced by worker.commit (block, post-state, receipts).
type VerifTask struct {
	t *task
}

func (t *VerifTask) Block() *types.Block        { return t.t.block }
func (t *VerifTask) State() *state.StateDB      { return t.t.state }
func (t *VerifTask) Receipts() []*types.Receipt { return t.t.receipts }

// NewVerifWorker builds the worker exactly as newWorker does, minus subscriptions and loops.
func NewVerifWorker(engine consensus.Engine, chain *core.BlockChain, mux *event.TypeMux) *VerifWorker {
	be := &VerifBackend{chain: chain}
	w := &worker{
		engine:    engine,
		you:       be,
		eventMux:  mux,
		chain:     chain,
		taskCh:    make(chan *task, 1),
		exitCh:    make(chan struct{}),
		processor: chain.Processor(),
		running:   1,
	}
	return &VerifWorker{w: w, be: be}
}

// SetTxPool replaces the pool the worker reads Pending() from.
func (v *VerifWorker) SetTxPool(p *core.TxPool) { v.be.pool = p }

// Build runs the real commitNewWork synchronously and returns the assembled task
// (nil if commitNewWork bailed out before commit()).
func (v *VerifWorker) Build() *VerifTask {
	select {
	case <-v.w.taskCh: // a stale task of a Build that was not followed by SealAndWrite
	default:
	}
	v.w.commitNewWork(nil)
	select {
	case t := <-v.w.taskCh:
		return &VerifTask{t: t}
	default:
		return nil
	}
}

// SealAndWrite does what taskLoop/mine do for a task: engine.Seal, then the real postSeal
// (WriteBlockWithState + chain events).
func (v *VerifWorker) SealAndWrite(t *VerifTask) (*types.Block, error) {
	block, err := v.w.engine.Seal(v.w.chain, t.t.block, nil)
	if err != nil {
		return nil, err
	}
	if block == nil {
		return nil, errors.New("engine.Seal returned no block")
	}
	v.w.postSeal(t.t, block)
	return block, nil
}
