// +build verif

package staking

// Add-only export shim for the /verif checks C05, C06 and C07.
//
// The staking module receives evidences from the event mux in its own goroutine
// (staking.go Start): TypeMux.Post returns as soon as that goroutine has *received*
// the event, which is before it has appended it to the pool. A harness that wants to
// build the next block deterministically therefore has to wait until the pool has
// grown. This accessor only reads the pool length under the module's own lock.

// VerifPendingEvidences returns the number of evidences currently in the module's pool.
func (s *Staking) VerifPendingEvidences() int {
	s.mutex.RLock()
	defer s.mutex.RUnlock()
	return len(s.evidences)
}
